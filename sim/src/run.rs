//! One simulated run: executor + property module + coverage counters,
//! in generate mode (seeded) or replay mode (explicit trace).

use crate::hooks;
use crate::model::Model;
use crate::ops::{Exec, Op, OpRes, Step, StepOut};
use crate::rng::{hash_str, SimRng};
use crate::world::World;
use serde_derive::{Deserialize, Serialize};
use serde_json::{json, Value};
use std::collections::{BTreeMap, BTreeSet};
use std::io::Write;

#[derive(Clone, Debug, Serialize, Deserialize, PartialEq)]
pub struct Violation {
	pub property: String,
	pub oracle: String,
	pub signature: String,
	pub detail: String,
	pub at_step: usize,
}

#[derive(Clone, Debug, Default, Serialize, Deserialize)]
pub struct Cov {
	pub evaluations: u64,
	pub keys: BTreeSet<u64>,
	pub probes: BTreeMap<String, u64>,
	pub faults: BTreeMap<String, u64>,
	pub not_judged: BTreeMap<String, u64>,
	pub outcomes: BTreeMap<String, u64>,
	pub states: BTreeSet<u64>,
	pub samples: Vec<Value>,
	pub steps: u64,
	pub sim_ms: i64,
	pub blocks: u64,
	pub aborted: BTreeMap<String, u64>,
}

impl Cov {
	pub fn case(&mut self, key: &str, nontrivial: bool) {
		self.evaluations += 1;
		if nontrivial {
			self.keys.insert(hash_str(key));
		}
	}
	pub fn probe(&mut self, name: &str) {
		*self.probes.entry(name.to_owned()).or_insert(0) += 1;
	}
	pub fn fault(&mut self, name: &str) {
		*self.faults.entry(name.to_owned()).or_insert(0) += 1;
	}
	pub fn not_judged(&mut self, name: &str) {
		*self.not_judged.entry(name.to_owned()).or_insert(0) += 1;
	}
	pub fn sample(&mut self, v: Value) {
		if self.samples.len() < 3 {
			self.samples.push(v);
		}
	}
	pub fn merge(&mut self, o: &Cov) {
		self.evaluations += o.evaluations;
		self.keys.extend(o.keys.iter().cloned());
		self.states.extend(o.states.iter().cloned());
		for (k, v) in &o.probes {
			*self.probes.entry(k.clone()).or_insert(0) += v;
		}
		for (k, v) in &o.faults {
			*self.faults.entry(k.clone()).or_insert(0) += v;
		}
		for (k, v) in &o.not_judged {
			*self.not_judged.entry(k.clone()).or_insert(0) += v;
		}
		for (k, v) in &o.outcomes {
			*self.outcomes.entry(k.clone()).or_insert(0) += v;
		}
		for (k, v) in &o.aborted {
			*self.aborted.entry(k.clone()).or_insert(0) += v;
		}
		for s in &o.samples {
			if self.samples.len() < 4 {
				self.samples.push(s.clone());
			}
		}
		self.steps += o.steps;
		self.sim_ms += o.sim_ms;
		self.blocks += o.blocks;
	}
}

#[derive(Clone, Debug, Serialize, Deserialize)]
pub struct ReplayFile {
	pub property: String,
	pub oracle: String,
	pub signature: String,
	pub detail: String,
	pub seed: u64,
	pub tier: String,
	#[serde(default)]
	pub knobs: BTreeMap<String, u64>,
	pub trace: Vec<Step>,
}

#[derive(Clone, Debug, Serialize, Deserialize)]
pub struct RunResult {
	pub property: String,
	pub seed: u64,
	pub steps: usize,
	pub violations: Vec<Violation>,
	pub cov: Cov,
	pub trace_hash: String,
	pub aborted: Option<String>,
	#[serde(default)]
	pub known_hits: Vec<Violation>,
}

pub struct Run {
	pub prop_id: String,
	pub seed: u64,
	pub thorough: bool,
	pub rng: SimRng,
	pub ex: Exec,
	pub model: Model,
	pub trace: Vec<Step>,
	pub outs: Vec<StepOut>,
	pub cov: Cov,
	pub knobs: BTreeMap<String, u64>,
	pub journal: Option<std::fs::File>,
	pub log: Vec<String>,
	pub start_ms: i64,
	pub verbose: bool,
	pub known_hits: Vec<Violation>,
}

/// A property module: generator + oracles
pub trait Prop {
	fn id(&self) -> &'static str;
	/// generation only: produce the next step, None ends the run
	fn next(&mut self, run: &mut Run) -> Option<Step>;
	/// both modes: before the step is executed (take snapshots)
	fn before(&mut self, _run: &mut Run, _step: &Step) {}
	/// both modes: judge the step
	fn after(&mut self, run: &mut Run, step: &Step, out: &StepOut) -> Vec<Violation>;
	/// both modes: end-of-run checks
	fn finish(&mut self, _run: &mut Run) -> Vec<Violation> {
		vec![]
	}
	/// handler for Op::Custom
	fn custom(&mut self, _ex: &mut Exec, _name: &str, _args: &Value) -> OpRes {
		OpRes::Skipped("no custom handler".into())
	}
	/// whether a genuine panic inside a wallet call is this property's business
	fn owns_panic(&self, _step: &Step) -> bool {
		false
	}
}

impl Run {
	pub fn new(prop_id: &str, seed: u64, thorough: bool, dir: &str) -> Run {
		let mut rng = SimRng::new(crate::rng::mix(&[seed, hash_str(prop_id)]));
		let world = World::new(dir, &mut rng);
		Run {
			prop_id: prop_id.to_owned(),
			seed,
			thorough,
			rng,
			ex: Exec {
				world,
				msgs: vec![],
			},
			model: Model::default(),
			trace: vec![],
			outs: vec![],
			cov: Cov::default(),
			knobs: BTreeMap::new(),
			journal: None,
			log: vec![],
			start_ms: hooks::now_ms(),
			verbose: false,
			known_hits: vec![],
		}
	}

	pub fn set_knob(&mut self, name: &str, v: u64) {
		self.knobs.insert(name.to_owned(), v);
		hooks::set_knob(name, v);
	}

	pub fn viol(&self, oracle: &str, sig: &str, detail: String) -> Violation {
		Violation {
			property: self.prop_id.clone(),
			oracle: oracle.to_owned(),
			signature: sig.to_owned(),
			detail,
			at_step: self.trace.len().saturating_sub(1),
		}
	}

	/// Execute one step through the property's hooks. Returns violations.
	pub fn step(&mut self, prop: &mut dyn Prop, step: Step) -> (StepOut, Vec<Violation>) {
		if let Some(j) = self.journal.as_mut() {
			let _ = writeln!(j, "{}", serde_json::to_string(&step).unwrap());
			let _ = j.flush();
		}
		prop.before(self, &step);
		self.trace.push(step.clone());
		let out = {
			let ex = &mut self.ex;
			let mut handler =
				|e: &mut Exec, n: &str, a: &Value| -> OpRes { prop.custom(e, n, a) };
			ex.exec(&step, &mut handler)
		};
		self.cov.steps += 1;
		let oc = if out.skipped {
			"skipped"
		} else if out.crashed {
			"crashed"
		} else if out.panic.is_some() {
			"panic"
		} else if out.ok {
			"ok"
		} else {
			"err"
		};
		*self
			.cov
			.outcomes
			.entry(format!("{}:{}", step.kind(), oc))
			.or_insert(0) += 1;
		if out.fault_fired {
			if let Some(f) = &step.fault {
				self.cov.fault(&format!("{}:{:?}", f.point, kind_name(&f.kind)));
			}
		}
		if step.node_fail.is_some() && out.node_calls > 0 {
			self.cov.fault("node_call_fail");
		}
		// simulator-level fault kinds that actually fired
		match &step.op {
			Op::Mutate { kind, .. } if out.ok => self.cov.fault(&format!("msg_mutation:{}", kind)),
			Op::Fork { .. } if out.ok => self.cov.fault("reorg"),
			Op::Restart { .. } if out.ok => self.cov.fault("restart"),
			Op::Node { down: true } => self.cov.fault("node_down"),
			Op::Clock { delta_ms } if *delta_ms < 0 => self.cov.fault("clock_jump_back"),
			Op::Clock { delta_ms } if *delta_ms > 0 => self.cov.fault("clock_advance"),
			Op::Receive { m, w, .. } | Op::Finalize { m, w, .. } | Op::Lock { m, w } => {
				let dup = self.trace[..self.trace.len() - 1].iter().any(|s| match (&s.op, &step.op) {
					(Op::Receive { m: m2, w: w2, .. }, Op::Receive { .. }) => m2 == m && w2 == w,
					(Op::Finalize { m: m2, w: w2, .. }, Op::Finalize { .. }) => m2 == m && w2 == w,
					(Op::Lock { m: m2, w: w2 }, Op::Lock { .. }) => m2 == m && w2 == w,
					_ => false,
				});
				if dup {
					self.cov.fault("duplicate_delivery");
				}
			}
			_ => {}
		}
		if self.verbose {
			eprintln!(
				"[{}] {} -> {}{}",
				self.trace.len() - 1,
				serde_json::to_string(&step).unwrap(),
				oc,
				out.err
					.as_ref()
					.map(|e| format!(" ({})", e))
					.unwrap_or_default()
			);
		}
		self.log.push(format!(
			"{}|{}|{}|{:?}",
			self.trace.len() - 1,
			step.kind(),
			oc,
			out.err
		));
		let mut v = vec![];
		// harness-level failure: never a property violation
		if let Some(e) = &out.err {
			if e.starts_with("HARNESS") {
				self.cov
					.aborted
					.entry(format!("harness:{}", e))
					.and_modify(|x| *x += 1)
					.or_insert(1);
			}
		}
		if let Some(p) = &out.panic {
			if prop.owns_panic(&step) {
				let site = p.split(" :: ").next().unwrap_or("?").to_owned();
				v.push(self.viol(
					"no_panic",
					&format!("panic@{}", site),
					format!("panic inside {}: {}", step.kind(), p),
				));
			} else {
				*self
					.cov
					.aborted
					.entry(format!("panic_outside_scope:{}", p))
					.or_insert(0) += 1;
			}
		}
		// the model observes in both modes
		let mut model = std::mem::take(&mut self.model);
		model.observe(self, &step, &out);
		self.model = model;
		self.outs.push(out.clone());
		v.extend(prop.after(self, &step, &out));
		(out, v)
	}

	pub fn finish_cov(&mut self) {
		// simulated time covered: the forward moves of the virtual clock (jumps back
		// and snapshot restores do not subtract)
		self.cov.sim_ms = hooks::elapsed_ms();
		self.cov.blocks = self.ex.world.chain.blocks_mined;
	}

	pub fn trace_hash(&self) -> String {
		let mut h = 0u64;
		for l in &self.log {
			h = crate::rng::mix(&[h, hash_str(l)]);
		}
		// canonical end state of every wallet, and raw message bytes
		for i in 0..self.ex.world.wallets.len() {
			if self.ex.world.is_open(i) {
				for l in self.ex.world.snap(i).full_proj() {
					h = crate::rng::mix(&[h, hash_str(&l)]);
				}
			}
		}
		for m in &self.ex.msgs {
			h = crate::rng::mix(&[h, hash_str(&crate::ops::slate_to_json(&m.slate))]);
		}
		format!("{:016x}", h)
	}
}

pub fn kind_name(k: &hooks::FaultKind) -> &'static str {
	match k {
		hooks::FaultKind::Fail => "fail",
		hooks::FaultKind::Crash => "crash",
		hooks::FaultKind::TruncCrash(_) => "trunc_crash",
	}
}

/// Drive a property in generate mode
/// signatures of known findings after which a run may go on (the defect leaves
/// no derived damage for this property's oracles)
pub fn known_continue(prop_id: &str) -> Vec<String> {
	crate::driver::load_known()
		.into_iter()
		.filter(|k| k.property == prop_id && k.status == "known" && k.cont)
		.map(|k| k.signature)
		.collect()
}

pub fn generate(prop: &mut dyn Prop, run: &mut Run, max_steps: usize) -> (Vec<Violation>, Option<String>) {
	let mut all = vec![];
	let mut aborted = None;
	let cont = known_continue(&run.prop_id);
	while run.trace.len() < max_steps {
		let st = match prop.next(run) {
			Some(s) => s,
			None => break,
		};
		let stc = st.clone();
		let (out, v) = run.step(prop, st);
		if !v.is_empty() {
			// listed findings that let the run continue are recorded aside; what remains
			// (if anything) is the violation this run reports
			let (known, fresh): (Vec<Violation>, Vec<Violation>) =
				v.into_iter().partition(|x| cont.contains(&x.signature));
			run.known_hits.extend(known);
			if fresh.is_empty() {
				continue;
			}
			all.extend(fresh);
			break;
		}
		if out.panic.is_some() && !prop.owns_panic(&stc) {
			aborted = Some("panic outside the property's scope".to_owned());
			break;
		}
		if let Some(e) = &out.err {
			if e.starts_with("HARNESS") {
				aborted = Some(e.clone());
				break;
			}
		}
	}
	if all.is_empty() && aborted.is_none() {
		all.extend(prop.finish(run));
	}
	run.finish_cov();
	(all, aborted)
}

/// Drive a property over an explicit trace
pub fn replay(prop: &mut dyn Prop, run: &mut Run, trace: &[Step]) -> (Vec<Violation>, Option<String>) {
	let mut all = vec![];
	let mut aborted = None;
	let cont = known_continue(&run.prop_id);
	for st in trace {
		let (out, v) = run.step(prop, st.clone());
		if !v.is_empty() {
			// same rule as in generation: a known finding that leaves no derived
			// damage does not end the run
			// listed findings that let the run continue are recorded aside; what remains
			// (if anything) is the violation this run reports
			let (known, fresh): (Vec<Violation>, Vec<Violation>) =
				v.into_iter().partition(|x| cont.contains(&x.signature));
			run.known_hits.extend(known);
			if fresh.is_empty() {
				continue;
			}
			all.extend(fresh);
			break;
		}
		if out.panic.is_some() && !prop.owns_panic(st) {
			aborted = Some("panic outside the property's scope".to_owned());
			break;
		}
	}
	if all.is_empty() && aborted.is_none() {
		all.extend(prop.finish(run));
	}
	run.finish_cov();
	(all, aborted)
}

pub fn sample_trace(run: &Run, max: usize) -> Value {
	let v: Vec<Value> = run
		.trace
		.iter()
		.take(max)
		.map(|s| serde_json::to_value(s).unwrap())
		.collect();
	json!({"seed": run.seed, "steps": run.trace.len(), "first_steps": v})
}

#[allow(dead_code)]
pub fn is_setup(op: &Op) -> bool {
	matches!(op, Op::CreateWallet { .. })
}
