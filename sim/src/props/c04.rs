//! C04 — after a successful refresh the wallet's books equal the chain's truth.

use crate::gen::{GenCfg, HistGen};
use crate::ops::{Op, SendArgs, Step, StepOut};
use crate::run::{sample_trace, Prop, Run, Violation};
use crate::world::Snap;
use grin_core::global;
use grin_keychain::Identifier;
use grin_util::ToHex;
use grin_wallet_libwallet::{OutputStatus, TxLogEntryType};
use std::collections::{BTreeMap, BTreeSet};

pub struct C04 {
	gen: HistGen,
	pre: Option<(usize, Snap)>,
	/// wallets whose history left the property's scope (repaired only by scan)
	tainted: BTreeSet<usize>,
	refreshes_judged: u64,
	last_digest: BTreeMap<(usize, String), u64>,
	had_outage: BTreeSet<usize>,
	/// scripted "zero-confirmation relay": B receives from A and spends the still
	/// unconfirmed output on (minimum_confirmations 0) before either transaction is
	/// mined; then both are posted and mined and B refreshes
	relay: Option<Relay>,
	relays_left: u32,
	/// scripted "twin receipts": two accounts of one wallet whose counters are equal each
	/// receive a payment (equal log ids, equal key indices), both are mined, each
	/// account is refreshed
	twin: Option<TwinRx>,
	twin_tried: bool,
	twin_head: Vec<Step>,
	/// scripted "twin cancel": account A of a wallet holds a finalized, not yet broadcast
	/// send; account B (same log-id counter) starts a send, reserves and cancels it - never
	/// broadcast, so within the property's histories; then A's transaction is posted and
	/// mined and both accounts are refreshed
	twin_cancel: Option<TwinCancel>,
}

struct TwinCancel {
	w: usize,
	o: usize,
	a: String,
	b: String,
	stage: u32,
	m_a1: Option<usize>,
	m_a2: Option<usize>,
	m_a3: Option<usize>,
	m_b1: Option<usize>,
}

struct TwinRx {
	w: usize,
	labels: Vec<String>,
	scripts: Vec<crate::gen::SendScript>,
	tail: Vec<Step>,
}

struct Relay {
	a: usize,
	b: usize,
	stage: u32,
	d1: Option<uuid::Uuid>,
	d2: Option<uuid::Uuid>,
}

impl C04 {
	pub fn new(run: &mut Run) -> C04 {
		let mut cfg = GenCfg::swarm(run);
		cfg.w_refresh += 8;
		cfg.w_mine += 4;
		cfg.w_restart = 1 + run.rng.below(4) as u32;
		cfg.w_account = 1 + run.rng.below(4) as u32;
		// about a quarter of the runs are fault-free
		if !run.rng.chance(1, 4) {
			cfg.p_node_fail = 5 + run.rng.below(25);
			cfg.w_node_toggle = run.rng.below(3) as u32;
		}
		// a minority of runs produce out-of-scope histories to exercise the taint logic
		cfg.allow_cancel_after_post = run.rng.chance(1, 8);
		let gen = HistGen::new(cfg, run);
		C04 {
			gen,
			pre: None,
			tainted: BTreeSet::new(),
			refreshes_judged: 0,
			last_digest: BTreeMap::new(),
			had_outage: BTreeSet::new(),
			relay: None,
			relays_left: if run.rng.chance(1, 4) { 1 + run.rng.below(2) as u32 } else { 0 },
			twin: None,
			twin_tried: false,
			twin_head: vec![],
			twin_cancel: None,
		}
	}

	fn twin_cancel_step(&mut self, run: &mut Run) -> Option<Step> {
		let t = self.twin_cancel.as_mut()?;
		let (w, o) = (t.w, t.o);
		let small = |run: &mut Run| {
			let mut a = SendArgs::simple(run.rng.range(1, 9) * 100_000_000 + run.rng.below(1000));
			a.min_conf = 1;
			a.max_outputs = 500;
			a.num_change = 1;
			a
		};
		let op = match t.stage {
			0 => Op::SetAccount { w, label: t.a.clone() },
			1 => Op::Refresh { w },
			2 => Op::SetAccount { w, label: t.b.clone() },
			3 => Op::Refresh { w },
			4 => Op::SetAccount { w, label: t.a.clone() },
			5 => Op::InitSend { w, args: small(run) },
			6 => Op::Receive { w: o, m: t.m_a1?, dest: None, enc: crate::ops::Enc::Mem },
			7 => Op::Lock { w, m: t.m_a1? },
			8 => Op::Finalize { w, m: t.m_a2?, foreign: false },
			9 => Op::SetAccount { w, label: t.b.clone() },
			10 => Op::InitSend { w, args: small(run) },
			11 => Op::Lock { w, m: t.m_b1? },
			12 => Op::Cancel { w, m: t.m_b1, id: None },
			13 => Op::SetAccount { w, label: t.a.clone() },
			14 => Op::Post { w, m: t.m_a3? },
			15 => Op::Mine { w: None, n: 1, txs: true },
			16 => Op::Refresh { w },
			17 => Op::SetAccount { w, label: t.b.clone() },
			18 => Op::Refresh { w },
			_ => return None,
		};
		t.stage += 1;
		Some(Step::new(op))
	}

	fn relay_step(&mut self, run: &mut Run) -> Option<Step> {
		let r = self.relay.as_mut()?;
		let deal = |id: &Option<uuid::Uuid>| id.and_then(|i| run.model.deal_of(&i)).map(|d| run.model.deals[d].clone());
		let d1 = deal(&r.d1);
		let d2 = deal(&r.d2);
		let st = match r.stage {
			0 => {
				let mut a = SendArgs::simple(run.rng.range(2, 40) * 1_000_000_000 + run.rng.below(1000));
				a.min_conf = 1;
				a.num_change = 1 + run.rng.below(2) as u32;
				Op::InitSend { w: r.a, args: a }
			}
			1 => Op::Receive { w: r.b, m: d1.as_ref()?.m1, dest: None, enc: crate::ops::Enc::Mem },
			2 => Op::Lock { w: r.a, m: d1.as_ref()?.m1 },
			3 => Op::Finalize { w: r.a, m: d1.as_ref()?.m2?, foreign: false },
			4 => {
				let amt = d1.as_ref()?.amount / 2 + run.rng.below(1000);
				let mut a = SendArgs::simple(amt);
				a.min_conf = 0;
				a.use_all = true;
				a.num_change = 1;
				run.cov.probe("zero_conf_relay_of_unconfirmed_receipt");
				Op::InitSend { w: r.b, args: a }
			}
			5 => Op::Receive { w: r.a, m: d2.as_ref()?.m1, dest: None, enc: crate::ops::Enc::Mem },
			6 => Op::Lock { w: r.b, m: d2.as_ref()?.m1 },
			7 => Op::Finalize { w: r.b, m: d2.as_ref()?.m2?, foreign: false },
			8 => Op::Post { w: r.a, m: d1.as_ref()?.m3? },
			9 => Op::Post { w: r.b, m: d2.as_ref()?.m3? },
			10 => Op::Mine { w: None, n: 1 + run.rng.below(2) as u32, txs: true },
			11 => Op::Refresh { w: r.b },
			12 => Op::Refresh { w: r.a },
			_ => return None,
		};
		r.stage += 1;
		Some(Step::new(st))
	}

	fn update_taint(&mut self, run: &Run, step: &Step, out: &StepOut) {
		for d in &run.model.deals {
			if d.cancelled_after_post || (!d.cancelled_by.is_empty() && d.posted) {
				for w in [d.payer, d.payee, Some(d.initiator)].iter().flatten() {
					self.tainted.insert(*w);
				}
			}
		}
		for d in &run.model.deals {
			// invoice payer that never ran the documented reservation step although
			// the payee went on to broadcast: a protocol omission by the user, the
			// statement's histories do not cover it
			if d.kind == crate::model::DealKind::Invoice && d.posted && !d.locked {
				if let Some(p) = d.payer {
					self.tainted.insert(p);
				}
			}
		}
		match &step.op {
			Op::Fork { .. } if out.ok => {
				for w in 0..run.ex.world.wallets.len() {
					self.tainted.insert(w);
				}
			}
			Op::Restore { .. } if out.ok => {
				// two wallet directories on one seed: out of scope
				for w in 0..run.ex.world.wallets.len() {
					self.tainted.insert(w);
				}
			}
			_ => {}
		}
	}

	/// the account an operation works on (label), if it names one
	fn op_account(run: &Run, step: &Step, pre: &Snap) -> Option<String> {
		match &step.op {
			Op::InitSend { args, .. } | Op::PayInvoice { args, .. } => {
				Some(args.src_acct.clone().unwrap_or(pre.active.clone()))
			}
			Op::Receive { dest, .. } => Some(dest.clone().unwrap_or(pre.active.clone())),
			Op::IssueInvoice { dest, .. } => Some(dest.clone().unwrap_or(pre.active.clone())),
			Op::Refresh { .. } | Op::Cancel { .. } => Some(pre.active.clone()),
			Op::Lock { w, m } | Op::Finalize { w, m, .. } => {
				let d = run.model.deal_of_msg(run, *m)?;
				let deal = &run.model.deals[d];
				if deal.payer == Some(*w) {
					deal.payer_acct.clone()
				} else if deal.payee == Some(*w) {
					deal.payee_acct.clone()
				} else {
					None
				}
			}
			_ => None,
		}
	}

	fn judge_refresh(&mut self, run: &mut Run, w: usize, out: &StepOut) -> Vec<Violation> {
		let mut v = vec![];
		let snap = run.ex.world.snap(w);
		let acct_label = snap.active.clone();
		let acct = match snap.acct_path(&acct_label) {
			Some(p) => p,
			None => return v,
		};
		let truth: Vec<_> = run
			.ex
			.world
			.truth(w)
			.into_iter()
			.filter(|t| t.acct == acct)
			.collect();
		let h = *snap.conf_height.get(&acct.to_hex()).unwrap_or(&0);
		let tip = run.ex.world.chain.height();
		// non-triviality: something changed since the previous judged refresh
		let mut dg = 0u64;
		for l in snap.out_proj() {
			dg = crate::rng::mix(&[dg, crate::rng::hash_str(&l)]);
		}
		let key = (w, acct_label.clone());
		let changed = self.last_digest.get(&key) != Some(&dg);
		self.last_digest.insert(key, dg);
		run.cov.case(&format!("{}|{}|{:x}", w, acct_label, dg), changed);
		self.refreshes_judged += 1;
		if self.had_outage.remove(&w) {
			run.cov.probe("first_successful_refresh_after_outage");
		}
		if h != tip {
			// the refresh used an older height than the tip only if the chain moved
			// during it, which the single-threaded simulator never does
			v.push(run.viol(
				"refresh_height",
				"refresh_height_not_tip",
				format!("wallet {} acct {}: refreshed height {} but node tip {}", w, acct_label, h, tip),
			));
			return v;
		}

		// (1) recorded unspent|reserved outputs == chain truth
		let mut rec: BTreeMap<String, (u64, OutputStatus)> = BTreeMap::new();
		for o in snap.outs_of(&acct) {
			if o.status == OutputStatus::Unspent || o.status == OutputStatus::Locked {
				let c = run.ex.world.commit_of(w, o).as_ref().to_hex();
				rec.insert(c, (o.value, o.status.clone()));
			}
		}
		let mut tru: BTreeMap<String, (u64, u64, bool)> = BTreeMap::new();
		for t in &truth {
			tru.insert(t.commit.as_ref().to_hex(), (t.value, t.height, t.is_coinbase));
		}
		for (c, (val, st)) in &rec {
			match tru.get(c) {
				None => {
					// listed finding (context merge when an invoice is paid by the wallet
					// that issued it), here with the invoice issued into another account:
					// the invoiced output is booked under the paying account
					let self_paid = run.model.deals.iter().any(|d| {
						d.kind == crate::model::DealKind::Invoice && d.initiator == w && d.payer == Some(w) && d.amount == *val
					});
					v.push(run.viol(
						"books_equal_truth",
						&format!(
							"recorded_{}_not_in_utxo{}",
							crate::world::status_str(st),
							if self_paid { ":self_paid_invoice_output" } else { "" }
						),
						format!(
							"wallet {} acct {}: output {} ({} nanogrin, {}) is recorded but not in the node's unspent set",
							w, acct_label, c, val, st
						),
					));
					return v;
				}
				Some((tv, _, _)) if tv != val => {
					v.push(run.viol(
						"books_equal_truth",
						"value_mismatch",
						format!("wallet {}: output {} recorded {} chain {}", w, c, val, tv),
					));
					return v;
				}
				_ => {}
			}
		}
		for (c, (tv, th, _)) in &tru {
			if !rec.contains_key(c) {
				let st = snap
					.outs_of(&acct)
					.iter()
					.find(|o| run.ex.world.commit_of(w, o).as_ref().to_hex() == *c)
					.map(|o| crate::world::status_str(&o.status))
					.unwrap_or("absent");
				v.push(run.viol(
					"books_equal_truth",
					&format!("utxo_not_recorded:{}", st),
					format!(
						"wallet {} acct {}: unspent output {} ({} nanogrin, height {}) of this account is {} in the wallet",
						w, acct_label, c, tv, th, st
					),
				));
				return v;
			}
		}

		// (2) the figures partition the truth's values
		let maturity = global::coinbase_maturity();
		for mc in [1u64, 2, 3, 10].iter() {
			let info = match run.ex.world.info(w, &acct, *mc) {
				Some(i) => i,
				None => continue,
			};
			let mut spendable = 0u64;
			let mut awaiting = 0u64;
			let mut immature = 0u64;
			let mut locked = 0u64;
			for t in &truth {
				let c = t.commit.as_ref().to_hex();
				let reserved = rec.get(&c).map(|x| x.1 == OutputStatus::Locked).unwrap_or(false);
				if reserved {
					locked += t.value;
				} else if t.is_coinbase && t.height + maturity > h {
					immature += t.value;
				} else if 1 + (h - t.height) < *mc {
					awaiting += t.value;
				} else {
					spendable += t.value;
				}
			}
			let exp = (spendable, awaiting, immature, locked, spendable + awaiting + immature);
			let got = (
				info.amount_currently_spendable,
				info.amount_awaiting_confirmation,
				info.amount_immature,
				info.amount_locked,
				info.total,
			);
			if exp != got {
				let field = if exp.0 != got.0 {
					"spendable"
				} else if exp.1 != got.1 {
					"awaiting_confirmation"
				} else if exp.2 != got.2 {
					"immature"
				} else if exp.3 != got.3 {
					"locked"
				} else {
					"total"
				};
				v.push(run.viol(
					"figures_partition",
					&format!("figure_mismatch:{}", field),
					format!(
						"wallet {} acct {} minconf {} height {}: expected (spendable, awaiting, immature, locked, total) = {:?}, wallet reports {:?}",
						w, acct_label, mc, h, exp, got
					),
				));
				return v;
			}
		}

		// (3) confirmed credits - confirmed debits == total + locked
		let mut credit: u128 = 0;
		let mut debit: u128 = 0;
		for t in snap.txs_of(&acct) {
			if t.confirmed {
				credit += t.amount_credited as u128;
				debit += t.amount_debited as u128;
			}
		}
		let sum: u128 = truth.iter().map(|t| t.value as u128).sum();
		if credit < debit || credit - debit != sum {
			// diagnose: a sent entry still unconfirmed although its kernel is mined
			let mut sig = "log_sum_mismatch".to_owned();
			for d in &run.model.deals {
				if d.kind == crate::model::DealKind::Invoice
					&& d.payer == Some(w)
					&& d.payee == Some(w)
					&& d.payer_acct == d.payee_acct
					&& d.mined.is_some()
				{
					sig = "self_paid_invoice_double_credit".to_owned();
				}
			}
			for d in &run.model.deals {
				if d.payer == Some(w) && d.mined.is_some() {
					let e = snap
						.txs
						.iter()
						.find(|t| t.tx_slate_id == Some(d.id) && t.tx_type == TxLogEntryType::TxSent);
					if let Some(e) = e {
						if !e.confirmed {
							// the transaction's own outputs held by this wallet (its change):
							// from the context where the DealBook read it, else (late lock)
							// from the finalized transaction itself
							let tx_outs: Vec<_> = d
								.tx
								.as_ref()
								.map(|t| t.outputs().iter().map(|o| o.commitment()).collect())
								.unwrap_or_default();
							// "reserved by a later transaction" is meant literally: the change
							// is an input of another transaction this wallet pays (a record that
							// merely carries another log id - e.g. one a scan restored after it
							// had been deleted - is something else)
							let change_taken = snap.outputs.iter().any(|o| {
								(d.change.iter().any(|(k, _)| *k == o.key_id.to_hex())
									|| tx_outs.contains(&run.ex.world.commit_of(w, o)))
									&& o.tx_log_entry != Some(e.id)
									&& run.model.deals.iter().any(|other| {
										other.id != d.id
											&& other.payer == Some(w)
											&& other
												.inputs
												.iter()
												.chain(other.reserved.iter())
												.any(|(k, _)| *k == o.key_id.to_hex())
									})
							});
							sig = if change_taken {
								"mined_sent_entry_unconfirmed:change_reserved_by_later_tx".to_owned()
							} else {
								"mined_sent_entry_unconfirmed".to_owned()
							};
						}
					}
				}
			}
			v.push(run.viol(
				"log_sums",
				&sig,
				format!(
					"wallet {} acct {}: confirmed credits {} - debits {} != value of unspent+reserved outputs {}",
					w, acct_label, credit, debit, sum
				),
			));
			return v;
		}
		let _ = out;
		v
	}
}

impl Prop for C04 {
	fn id(&self) -> &'static str {
		"C04"
	}

	fn next(&mut self, run: &mut Run) -> Option<Step> {
		if self.relay.is_some() {
			match self.relay_step(run) {
				Some(s) => return Some(s),
				None => self.relay = None,
			}
		}
		if self.twin_cancel.is_some() {
			match self.twin_cancel_step(run) {
				Some(s) => return Some(s),
				None => self.twin_cancel = None,
			}
		}
		if let Some(s) = self.twin_head.pop() {
			return Some(s);
		}
		if let Some(t) = self.twin.as_mut() {
			// the sends one after the other, then the tail (mine, refresh each account)
			while let Some(sc) = t.scripts.last_mut() {
				if sc.failed {
					t.scripts.clear();
					t.tail.clear();
					break;
				}
				match sc.next() {
					Some(s) => return Some(s),
					None => {
						t.scripts.pop();
					}
				}
			}
			match t.tail.pop() {
				Some(s) => return Some(s),
				None => self.twin = None,
			}
		}
		if !self.gen.in_setup() && self.gen.twins && !self.twin_tried {
			self.twin_tried = true;
			let nw = run.ex.world.wallets.len();
			let cands: Vec<usize> = (0..self.gen.labels.len().min(nw)).filter(|w| self.gen.labels[*w].len() > 1).collect();
			if !cands.is_empty() && nw >= 2 && run.rng.chance(2, 3) && !run.ex.world.chain.is_down() {
				let w = *run.rng.pick(&cands);
				// a payer with funds
				let payers: Vec<usize> = (0..nw).filter(|o| *o != w && run.ex.world.is_open(*o) && HistGen::spendable(run, *o) > 10_000_000_000).collect();
				if let Some(o) = payers.first().cloned() {
					let labels: Vec<String> = self.gen.labels[w].iter().take(2).cloned().collect();
					if run.rng.chance(1, 2) && self.gen.cfg.fund_blocks.get(w).cloned().unwrap_or(0) > 0 {
						run.cov.probe("twin_cancel_script_started");
						self.twin_cancel = Some(TwinCancel {
							w,
							o,
							a: labels[0].clone(),
							b: labels[1].clone(),
							stage: 0,
							m_a1: None,
							m_a2: None,
							m_a3: None,
							m_b1: None,
						});
						return self.twin_cancel_step(run);
					}
					let mut scripts = vec![];
					for l in labels.iter().rev() {
						let mut a = SendArgs::simple(run.rng.range(1, 4) * 1_000_000_000 + run.rng.below(1000));
						a.min_conf = 1;
						a.max_outputs = 500;
						a.num_change = 1;
						let mut sc = crate::gen::SendScript::new(o, w, a, 5);
						sc.dest = Some(l.clone());
						scripts.push(sc);
					}
					// tail is popped from the end
					let mut tail = vec![];
					for l in labels.iter() {
						tail.push(Step::new(Op::Refresh { w }));
						tail.push(Step::new(Op::SetAccount { w, label: l.clone() }));
					}
					tail.push(Step::new(Op::Mine { w: None, n: 1, txs: true }));
					// before anything: both accounts refreshed, so their counters are level
					let mut head = vec![];
					for l in labels.iter() {
						head.push(Step::new(Op::SetAccount { w, label: l.clone() }));
						head.push(Step::new(Op::Refresh { w }));
					}
					run.cov.probe("twin_receipts_script_started");
					self.twin = Some(TwinRx { w, labels, scripts, tail });
					// the head steps go first: queue them in front by returning them one by one
					head.reverse();
					self.twin_head = head;
					return self.twin_head.pop();
				}
			}
		}
		if self.gen.setup_done && self.relays_left > 0 && run.rng.chance(1, 8) {
			let nw = run.ex.world.wallets.len();
			if nw >= 2 && !run.ex.world.chain.is_down() {
				let a = run.rng.idx(nw);
				let b = (a + 1 + run.rng.idx(nw - 1)) % nw;
				if run.ex.world.is_open(a) && run.ex.world.is_open(b) {
					self.relays_left -= 1;
					self.relay = Some(Relay { a, b, stage: 0, d1: None, d2: None });
					if let Some(s) = self.relay_step(run) {
						return Some(s);
					}
					self.relay = None;
				}
			}
		}
		self.gen.next(run)
	}

	fn before(&mut self, run: &mut Run, step: &Step) {
		self.pre = None;
		if let Some(w) = step.wallet() {
			if w < run.ex.world.wallets.len() && run.ex.world.is_open(w) {
				self.pre = Some((w, run.ex.world.snap(w)));
			}
		}
	}

	fn after(&mut self, run: &mut Run, step: &Step, out: &StepOut) -> Vec<Violation> {
		let mut v = vec![];
		self.gen.feedback(run, step, out);
		self.update_taint(run, step, out);
		if let Some(t) = self.twin_cancel.as_mut() {
			match (&step.op, out.new_msg) {
				(Op::InitSend { .. }, Some(m)) if t.stage == 6 => t.m_a1 = Some(m),
				(Op::Receive { .. }, Some(m)) if t.stage == 7 => t.m_a2 = Some(m),
				(Op::Finalize { .. }, Some(m)) if t.stage == 9 => t.m_a3 = Some(m),
				(Op::InitSend { .. }, Some(m)) if t.stage == 11 => t.m_b1 = Some(m),
				_ => {}
			}
			if !out.ok && !matches!(step.op, Op::Refresh { .. } | Op::Mine { .. }) {
				self.twin_cancel = None;
			}
		}
		if let Some(t) = self.twin.as_mut() {
			if let Some(sc) = t.scripts.last_mut() {
				sc.feedback(step, out);
			}
			let _ = (&t.w, &t.labels);
		}
		if let Some(r) = self.relay.as_mut() {
			let mut abort = !out.ok && !matches!(step.op, Op::Refresh { .. } | Op::Mine { .. });
			if let (Op::InitSend { .. }, Some(m)) = (&step.op, out.new_msg) {
				let id = run.ex.msgs[m].slate.id;
				if r.stage == 1 {
					r.d1 = Some(id);
				} else if r.stage == 5 {
					r.d2 = Some(id);
				}
			} else if matches!(step.op, Op::InitSend { .. }) {
				abort = true;
			}
			if abort {
				self.relay = None;
			}
		}
		if let Op::Scan { w, .. } = &step.op {
			if out.ok {
				// a completed scan brings the wallet back into scope, unless an
				// out-of-scope deal is still unresolved
				self.tainted.remove(w);
				self.update_taint(run, step, out);
			}
		}
		// (4) an operation on account X never reserves or spends account Y's outputs
		if let Some((w, pre)) = self.pre.clone() {
			if let Some(x) = Self::op_account(run, step, &pre) {
				if run.ex.world.is_open(w) && !self.tainted.contains(&w) {
					let post = run.ex.world.snap(w);
					let xp: Option<Identifier> = pre.acct_path(&x);
					for o in &post.outputs {
						if Some(&o.root_key_id) == xp.as_ref() {
							continue;
						}
						if o.status != OutputStatus::Locked && o.status != OutputStatus::Spent {
							continue;
						}
						let before = pre
							.outputs
							.iter()
							.find(|p| p.key_id == o.key_id && p.mmr_index == o.mmr_index);
						if let Some(b) = before {
							if b.status != o.status {
								v.push(run.viol(
									"account_isolation",
									&format!("other_account_output_{}", o.status),
									format!(
										"wallet {}: {} on account {} changed output {} of account {} from {} to {}",
										w,
										step.kind(),
										x,
										o.key_id.to_hex(),
										post.acct_label(&o.root_key_id),
										b.status,
										o.status
									),
								));
								return v;
							}
						}
					}
					if pre.accts.len() > 1 {
						run.cov.probe("op_on_multi_account_wallet");
					}
				}
			}
		}
		if let Op::Refresh { w } = &step.op {
			if out.ok && out.validated == Some(true) {
				if self.tainted.contains(w) {
					run.cov.not_judged("refresh_of_tainted_wallet");
				} else {
					v.extend(self.judge_refresh(run, *w, out));
				}
			} else if out.ok && out.validated == Some(false) {
				run.cov.not_judged("refresh_could_not_contact_node");
				self.had_outage.insert(*w);
				if out.node_calls >= 2 {
					run.cov.probe("refresh_died_after_first_node_call");
				}
			}
		}
		// entry types the statement's sums rely on
		if let Op::Refresh { w } = &step.op {
			if out.ok && run.ex.world.is_open(*w) {
				let s = run.ex.world.snap(*w);
				if s.txs.iter().any(|t| t.tx_type == TxLogEntryType::TxSent && t.confirmed) {
					run.cov.probe("confirmed_sent_entry_present");
				}
			}
		}
		if run.trace.len() == 14 {
			let s = sample_trace(run, 14);
			run.cov.sample(s);
		}
		v
	}
}
