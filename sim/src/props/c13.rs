//! C13 — the owner listener acts only on requests authenticated by the session key.

use crate::gen::{GenCfg, HistGen};
use crate::ops::{Exec, Op, OpRes, Step, StepOut};
use crate::rng::SimRng;
use crate::rpc::RpcEndpoints;
use crate::run::{sample_trace, Prop, Run, Violation};
use grin_util::secp::key::{PublicKey, SecretKey};
use grin_util::{from_hex, static_secp_instance, ToHex};
use grin_wallet_api::{EncryptedRequest, EncryptedResponse, JsonId};
use serde_json::{json, Value};

struct Session {
	w: usize,
	opens: u32,
	ep: RpcEndpoints,
	current: Option<SecretKey>,
	old: Vec<SecretKey>,
	/// envelopes sent under some key: (key epoch, text)
	traffic: Vec<(usize, String)>,
	epoch: usize,
}

pub struct C13 {
	gen: HistGen,
	sess: Option<Session>,
	pre: Option<(usize, std::collections::BTreeMap<String, u64>, bool, String)>,
	n_req: u64,
	history_len: usize,
}

const METHODS: &[&str] = &[
	"accounts",
	"retrieve_txs",
	"retrieve_summary_info",
	"retrieve_outputs",
	"node_height",
	"get_slatepack_address",
	"get_top_level_directory",
	"create_account_path",
	"set_active_account",
	"get_mnemonic",
	"get_slatepack_secret_key",
	"close_wallet",
	"get_rewind_hash",
];

fn params_for(method: &str, seed: u64, password: &str) -> Value {
	match method {
		"accounts" | "node_height" | "get_rewind_hash" => json!({"token": null}),
		"retrieve_txs" => json!({"token": null, "refresh_from_node": false, "tx_id": null, "tx_slate_id": null}),
		"retrieve_summary_info" => json!({"token": null, "refresh_from_node": false, "minimum_confirmations": 1}),
		"retrieve_outputs" => json!({"token": null, "include_spent": true, "refresh_from_node": false, "tx_id": null}),
		"get_slatepack_address" | "get_slatepack_secret_key" => json!({"token": null, "derivation_index": 0}),
		"get_top_level_directory" => json!({}),
		"create_account_path" => json!({"token": null, "label": format!("rpc{}", seed % 1000)}),
		"set_active_account" => json!({"token": null, "label": "default"}),
		"get_mnemonic" => json!({"name": null, "password": password}),
		"close_wallet" => json!({"name": null}),
		_ => json!({}),
	}
}

pub fn client_key(seed: u64) -> (SecretKey, PublicKey) {
	let mut r = SimRng::new(seed ^ 0xec0d);
	let secp = static_secp_instance();
	let secp = secp.lock();
	loop {
		let b = r.bytes(32);
		if let Ok(k) = SecretKey::from_slice(&secp, &b) {
			let p = PublicKey::from_secret_key(&secp, &k).unwrap();
			return (k, p);
		}
	}
}

pub fn shared_from(server_pub_hex: &str, sk: &SecretKey) -> Option<SecretKey> {
	let secp = static_secp_instance();
	let secp = secp.lock();
	let bytes = from_hex(server_pub_hex).ok()?;
	let mut p = PublicKey::from_slice(&secp, &bytes).ok()?;
	p.mul_assign(&secp, sk).ok()?;
	let x = p.serialize_vec(&secp, true);
	SecretKey::from_slice(&secp, &x[1..]).ok()
}

impl C13 {
	pub fn new(run: &mut Run) -> C13 {
		let mut cfg = GenCfg::swarm(run);
		cfg.boundary_args = false;
		cfg.n_wallets = 2;
		cfg.fund_blocks.truncate(2);
		let history_len = 6 + run.rng.below(14) as usize;
		let gen = HistGen::new(cfg, run);
		C13 {
			gen,
			sess: None,
			pre: None,
			n_req: 0,
			history_len,
		}
	}

	fn ensure_session(&mut self, ex: &Exec, w: usize) -> bool {
		let opens = ex.world.wallets[w].opens;
		let stale = match &self.sess {
			Some(s) => s.w != w || s.opens != opens,
			None => true,
		};
		if stale {
			match RpcEndpoints::new(&ex.world, w) {
				Some(ep) => {
					self.sess = Some(Session {
						w,
						opens,
						ep,
						current: None,
						old: vec![],
						traffic: vec![],
						epoch: 0,
					})
				}
				None => return false,
			}
		}
		true
	}

	fn envelope(id: u64, method: &str, params: &Value, key: &SecretKey) -> Option<String> {
		envelope(id, method, params, key)
	}
}

pub fn envelope(id: u64, method: &str, params: &Value, key: &SecretKey) -> Option<String> {
	let inner = json!({"jsonrpc": "2.0", "method": method, "params": params, "id": id});
	let er = EncryptedRequest::from_json(&JsonId::IntId(id as u32), &inner, key).ok()?;
	er.as_json_str().ok()
}

impl Prop for C13 {
	fn id(&self) -> &'static str {
		"C13"
	}

	fn custom(&mut self, ex: &mut Exec, name: &str, a: &Value) -> OpRes {
		if name != "rpc" {
			return OpRes::Skipped("unknown".into());
		}
		let w = a["w"].as_u64().unwrap_or(0) as usize;
		if w >= ex.world.wallets.len() || ex.world.wallets[w].inst.is_none() {
			return OpRes::Skipped("unavailable".into());
		}
		if !self.ensure_session(ex, w) {
			return OpRes::Skipped("no session".into());
		}
		let password = ex.world.wallets[w].password.clone();
		let s = self.sess.as_mut().unwrap();
		let kind = a["kind"].as_str().unwrap_or("plain").to_owned();
		let method = a["method"].as_str().unwrap_or("accounts").to_owned();
		let seed = a["seed"].as_u64().unwrap_or(0);
		let id = 1 + seed % 1000;
		let params = params_for(&method, seed, &password);
		let mut class = "iii";
		let mut new_key: Option<SecretKey> = None;
		let mut client_sk: Option<SecretKey> = None;
		let mut used_key: Option<SecretKey> = None;
		let body: String = match kind.as_str() {
			"init" => {
				class = "i";
				let (sk, pk) = client_key(seed);
				client_sk = Some(sk);
				let secp = static_secp_instance();
				let secp = secp.lock();
				let hex = pk.serialize_vec(&secp, true).to_vec().to_hex();
				json!({"jsonrpc": "2.0", "method": "init_secure_api", "params": {"ecdh_pubkey": hex}, "id": id}).to_string()
			}
			"init_bad" => {
				// key exchange with a malformed public key: must not change the session key
				class = "i_bad";
				json!({"jsonrpc": "2.0", "method": "init_secure_api", "params": {"ecdh_pubkey": "02ffff"}, "id": id}).to_string()
			}
			"call" | "replay_current" | "wrong_method" | "init_enc" | "slow_call" | "slow_rekey" => {
				let key = match &s.current {
					Some(k) => k.clone(),
					None => return OpRes::Skipped("no session key yet".into()),
				};
				class = "ii";
				used_key = Some(key.clone());
				if kind == "replay_current" {
					match s.traffic.iter().rev().find(|(e, _)| *e == s.epoch) {
						Some((_, t)) => t.clone(),
						None => return OpRes::Skipped("nothing to replay".into()),
					}
				} else if kind == "init_enc" {
					let (sk, pk) = client_key(seed);
					client_sk = Some(sk);
					let hex = {
						let secp = static_secp_instance();
						let secp = secp.lock();
						pk.serialize_vec(&secp, true).to_vec().to_hex()
					};
					match Self::envelope(id, "init_secure_api", &json!({"ecdh_pubkey": hex}), &key) {
						Some(t) => t,
						None => return OpRes::Skipped("cannot build".into()),
					}
				} else {
					let t = match Self::envelope(id, &method, &params, &key) {
						Some(t) => t,
						None => return OpRes::Skipped("cannot build".into()),
					};
					if kind == "wrong_method" {
						t.replace("encrypted_request_v3", *SimRng::new(seed).pick(&["encrypted_request_v2", "accounts", "open_wallet", ""]))
					} else {
						s.traffic.push((s.epoch, t.clone()));
						t
					}
				}
			}
			"plain" => json!({"jsonrpc": "2.0", "method": method, "params": params, "id": id}).to_string(),
			"old_key" | "replay_old" => {
				if s.old.is_empty() {
					return OpRes::Skipped("no superseded key".into());
				}
				if kind == "replay_old" {
					match s.traffic.iter().find(|(e, _)| *e < s.epoch) {
						Some((_, t)) => t.clone(),
						None => return OpRes::Skipped("nothing to replay".into()),
					}
				} else {
					let k = s.old[(seed as usize) % s.old.len()].clone();
					match Self::envelope(id, &method, &params, &k) {
						Some(t) => t,
						None => return OpRes::Skipped("cannot build".into()),
					}
				}
			}
			"wrong_key" => {
				if s.current.is_none() {
					return OpRes::Skipped("no session yet".into());
				}
				let (k, _) = client_key(seed ^ 0x77);
				match Self::envelope(id, &method, &params, &k) {
					Some(t) => t,
					None => return OpRes::Skipped("cannot build".into()),
				}
			}
			"flip_body" | "flip_nonce" | "array" | "nested" | "truncate" => {
				let key = match &s.current {
					Some(k) => k.clone(),
					None => return OpRes::Skipped("no session key yet".into()),
				};
				let t = match Self::envelope(id, &method, &params, &key) {
					Some(t) => t,
					None => return OpRes::Skipped("cannot build".into()),
				};
				let mut v: Value = serde_json::from_str(&t).unwrap();
				match kind.as_str() {
					"flip_body" => {
						let b64 = v["params"]["body_enc"].as_str().unwrap_or("").to_owned();
						let mut raw = base64::decode(&b64).unwrap_or_default();
						if raw.is_empty() {
							return OpRes::Skipped("empty".into());
						}
						let i = (seed as usize) % raw.len();
						raw[i] ^= 1 << (seed % 8);
						v["params"]["body_enc"] = json!(base64::encode(&raw));
						v.to_string()
					}
					"flip_nonce" => {
						let n = v["params"]["nonce"].as_str().unwrap_or("").to_owned();
						let mut raw = from_hex(&n).unwrap_or_default();
						if raw.is_empty() {
							return OpRes::Skipped("empty".into());
						}
						let i = (seed as usize) % raw.len();
						raw[i] ^= 1 << (seed % 8);
						v["params"]["nonce"] = json!(raw.to_hex());
						v.to_string()
					}
					"array" => json!([v]).to_string(),
					"nested" => {
						// an envelope whose payload is another envelope under a wrong key
						let (k2, _) = client_key(seed ^ 0x99);
						let inner = Self::envelope(id, &method, &params, &k2).unwrap_or_default();
						let inner_v: Value = serde_json::from_str(&inner).unwrap_or(json!({}));
						match EncryptedRequest::from_json(&JsonId::IntId(id as u32), &inner_v, &key)
							.ok()
							.and_then(|e| e.as_json_str().ok())
						{
							Some(t) => {
								// authenticated outer layer, unauthenticated inner call: the inner
								// call must not be executed
								class = "iii_nested";
								used_key = Some(key.clone());
								t
							}
							None => return OpRes::Skipped("cannot build".into()),
						}
					}
					_ => t[..t.len() / 2].to_owned(),
				}
			}
			_ => {
				let mut r = SimRng::new(seed);
				String::from_utf8_lossy(&r.bytes(40)).to_string()
			}
		};
		let mut slow_new_key: Option<SecretKey> = None;
		let (status, reply) = if kind == "slow_call" || kind == "slow_rekey" {
			// a slow body: the request head arrives, another exchange completes, then the
			// body arrives. Across a re-key the envelope was made under a key that is
			// superseded by the time its ciphertext is there: it must be refused.
			let ep = &s.ep;
			let cur = s.current.clone();
			let rekey = kind == "slow_rekey";
			let mut between = || {
				if rekey {
					let (sk, pk) = client_key(seed ^ 0x51);
					let hex = {
						let secp = static_secp_instance();
						let secp = secp.lock();
						pk.serialize_vec(&secp, true).to_vec().to_hex()
					};
					let b = json!({"jsonrpc": "2.0", "method": "init_secure_api", "params": {"ecdh_pubkey": hex}, "id": id + 1}).to_string();
					let (_, r) = ep.post_owner(b.as_bytes());
					let v: Value = serde_json::from_str(&r).unwrap_or(Value::Null);
					if let Some(h) = v["result"]["Ok"].as_str() {
						slow_new_key = shared_from(h, &sk);
					}
				} else if let Some(k) = &cur {
					if let Some(b) = envelope(id + 1, "accounts", &json!({"token": Value::Null}), k) {
						let _ = ep.post_owner(b.as_bytes());
					}
				}
			};
			let (st, r, waited) = ep.post_owner_slow(body.as_bytes(), &mut between);
			if !waited {
				return OpRes::Err("HARNESS the owner handler answered before the body arrived".into());
			}
			(st, r)
		} else {
			s.ep.post_owner(body.as_bytes())
		};
		if kind == "slow_rekey" {
			match slow_new_key.clone() {
				Some(k) => {
					// the envelope's key is superseded now: an unauthenticated request
					class = "iii";
					used_key = None;
					if let Some(c) = s.current.take() {
						s.old.push(c);
					}
					s.current = Some(k);
					s.epoch += 1;
				}
				None => return OpRes::Err("HARNESS key exchange inside a slow request failed".into()),
			}
		}
		let rv: Value = serde_json::from_str(&reply).unwrap_or(Value::Null);
		let mut decrypts = false;
		let mut inner = Value::Null;
		if let Some(k) = &used_key {
			if let Ok(er) = serde_json::from_value::<EncryptedResponse>(rv.clone()) {
				if er.result.contains_key("Ok") {
					if let Ok(v) = er.decrypt(k) {
						decrypts = true;
						inner = v;
					}
				}
			}
		}
		// key exchange outcome
		if class == "i" || kind == "init_enc" {
			let res = if kind == "init_enc" { inner.clone() } else { rv.clone() };
			if let (Some(hex), Some(sk)) = (res["result"]["Ok"].as_str(), &client_sk) {
				new_key = shared_from(hex, sk);
			}
			if let Some(k) = new_key.clone() {
				if let Some(c) = s.current.take() {
					s.old.push(c);
				}
				s.current = Some(k);
				s.epoch += 1;
			}
		}
		OpRes::Ok {
			new_msg: None,
			note: json!({
				"class": class,
				"kind": kind,
				"method": method,
				"status": status,
				"reply": reply,
				"decrypts": decrypts,
				"inner": inner,
				"rekeyed": new_key.is_some(),
			})
			.to_string(),
			validated: None,
			new_wallet: None,
		}
	}

	fn next(&mut self, run: &mut Run) -> Option<Step> {
		if self.gen.in_setup() || run.trace.len() < self.history_len {
			return self.gen.next(run);
		}
		let w = 0usize;
		if run.ex.world.wallets.is_empty() {
			return None;
		}
		if run.rng.chance(1, 25) {
			return Some(Step::new(Op::Restart { w }));
		}
		let have_key = self.sess.as_ref().map(|s| s.current.is_some()).unwrap_or(false);
		let kinds: Vec<&str> = if !have_key {
			vec!["init", "plain", "plain", "garbage", "init_bad", "wrong_key", "call"]
		} else {
			vec![
				"call", "call", "call", "call", "plain", "plain", "plain", "init", "init_enc", "init_bad", "old_key",
				"replay_old", "wrong_key", "flip_body", "flip_nonce", "array", "nested", "truncate", "slow_call", "slow_rekey", "slow_rekey",
				"garbage", "wrong_method", "replay_current",
			]
		};
		let kind = *run.rng.pick(&kinds);
		if kind.starts_with("slow_") {
			run.cov.fault("slow_request_body");
		}
		let method = *run.rng.pick(METHODS);
		// close_wallet through an authenticated call only rarely (it ends most of the run)
		let method = if method == "close_wallet" && kind == "call" && !run.rng.chance(1, 6) {
			"accounts"
		} else {
			method
		};
		Some(Step::new(Op::Custom {
			name: "rpc".into(),
			args: json!({"w": w, "kind": kind, "method": method, "seed": run.rng.below(1 << 40)}),
		}))
	}

	fn before(&mut self, run: &mut Run, step: &Step) {
		self.pre = None;
		if let Op::Custom { args, .. } = &step.op {
			let w = args["w"].as_u64().unwrap_or(0) as usize;
			if w < run.ex.world.wallets.len() && run.ex.world.wallets[w].inst.is_some() {
				let snap = run.ex.world.snap(w);
				self.pre = Some((w, run.ex.world.dir_state(w), snap.open, snap.active));
			}
		}
	}

	fn after(&mut self, run: &mut Run, step: &Step, out: &StepOut) -> Vec<Violation> {
		let mut v = vec![];
		self.gen.feedback(run, step, out);
		let (_, args) = match &step.op {
			Op::Custom { name, args } if name == "rpc" => (name, args),
			_ => return v,
		};
		if out.skipped || !out.ok {
			return v;
		}
		let (w, dig0, open0, active0) = match self.pre.take() {
			Some(p) => p,
			None => return v,
		};
		let note: Value = serde_json::from_str(&out.note).unwrap_or(Value::Null);
		let class = note["class"].as_str().unwrap_or("").to_owned();
		let kind = note["kind"].as_str().unwrap_or("").to_owned();
		let method = note["method"].as_str().unwrap_or("").to_owned();
		let reply = note["reply"].as_str().unwrap_or("").to_owned();
		let rv: Value = serde_json::from_str(&reply).unwrap_or(Value::Null);
		self.n_req += 1;
		let epoch = self.sess.as_ref().map(|s| s.epoch).unwrap_or(0);
		run.cov.case(
			&format!("{}|{}|{}", kind, if class == "ii" { method.clone() } else { String::new() }, std::cmp::min(epoch, 3)),
			class != "ii" || kind != "call",
		);
		let snap = run.ex.world.snap(w);
		let dig1 = run.ex.world.dir_state(w);
		let kinds = crate::world::World::dir_diff_kinds(&dig0, &dig1);
		let unchanged = dig0 == dig1 && snap.open == open0 && (!snap.open || snap.active == active0);
		let _ = args;
		match class.as_str() {
			"iii" | "iii_nested" | "i_bad" => {
				// answered with an error
				let is_err = if class == "iii_nested" {
					// outer layer is authenticated: the (decrypted) answer must be an error
					let inner = &note["inner"];
					inner.get("error").is_some()
						|| inner["result"].get("Err").is_some()
						|| rv.get("error").is_some()
				} else {
					// a JSON-RPC error object, or an HTTP error status for bodies that are
					// not JSON at all
					note["status"].as_u64().unwrap_or(200) >= 400
						|| (rv.get("error").is_some() && rv.get("result").is_none())
				};
				if !is_err && class != "i_bad" {
					v.push(run.viol(
						"unauthenticated_refused",
						&format!("unauthenticated_request_answered:{}", kind),
						format!(
							"owner listener answered a {} request ({}) without an error: {}",
							kind,
							method,
							reply.chars().take(300).collect::<String>()
						),
					));
					return v;
				}
				if class == "i_bad" && note["rekeyed"].as_bool() == Some(true) {
					v.push(run.viol("unauthenticated_refused", "bad_key_exchange_rekeyed", "malformed key exchange changed the session key".into()));
					return v;
				}
				// changes nothing
				if !unchanged {
					v.push(run.viol(
						"unauthenticated_no_effect",
						&format!("unauthenticated_request_changed_state:{}:{}", kind, method),
						format!(
							"a {} request ({}) changed the wallet (durable items changed: {}; open {} -> {}, active {} -> {})",
							kind, method, kinds, open0, snap.open, active0, snap.active
						),
					));
					return v;
				}
				// reveals nothing: commitments, slate ids, addresses
				let mut secrets: Vec<String> = vec![];
				for o in &snap.outputs {
					if let Some(c) = &o.commit {
						secrets.push(c.clone());
					}
				}
				for t in &snap.txs {
					if let Some(id) = t.tx_slate_id {
						secrets.push(id.to_string());
					}
				}
				secrets.push(run.ex.world.wallets[w].mnemonic.clone());
				for s in secrets {
					if !s.is_empty() && reply.contains(&s) {
						v.push(run.viol(
							"unauthenticated_reveals_nothing",
							&format!("unauthenticated_reply_leaks:{}", kind),
							format!("reply to a {} request contains wallet data {}", kind, s),
						));
						return v;
					}
				}
			}
			"ii" => {
				if kind == "call" || kind == "init_enc" {
					if note["decrypts"].as_bool() != Some(true) {
						v.push(run.viol(
							"reply_under_session_key",
							"authenticated_reply_not_encrypted_under_session_key",
							format!(
								"reply to an authenticated {} call does not decrypt under the session key: {}",
								method,
								reply.chars().take(200).collect::<String>()
							),
						));
						return v;
					}
					run.cov.probe("authenticated_call_answered");
				} else {
					run.cov.not_judged(&format!("authenticated_{}", kind));
				}
			}
			_ => {}
		}
		if self.n_req == 12 {
			let s = sample_trace(run, 60);
			run.cov.sample(s);
		}
		v
	}
}
