//! C17 — expired slates are refused, expired pending transactions released.

use crate::gen::{GenCfg, HistGen};
use crate::ops::{Op, Step, StepOut};
use crate::run::{sample_trace, Prop, Run, Violation};
use crate::world::Snap;
use grin_util::ToHex;
use grin_wallet_libwallet::{OutputStatus, TxLogEntryType};

pub struct C17 {
	gen: HistGen,
	pre: Option<(usize, Snap)>,
	redirect: Option<Step>,
}

fn proj(s: &Snap) -> Vec<String> {
	let mut v = s.out_proj();
	v.extend(s.tx_proj());
	v
}

impl C17 {
	pub fn new(run: &mut Run) -> C17 {
		let mut cfg = GenCfg::swarm(run);
		cfg.allow_ttl = true;
		cfg.boundary_args = false;
		cfg.w_mine += 10;
		cfg.w_refresh += 8;
		cfg.w_new_send += 6;
		cfg.w_cancel = 0;
		// known defect family (C01/C04/C05): spending unconfirmed outputs makes the repair
		// scan inside a refresh cancel entries for reasons unrelated to expiry
		cfg.avoid_spend_unconfirmed = true;
		cfg.max_inflight = 2 + run.rng.below(3) as usize;
		let gen = HistGen::new(cfg, run);
		C17 {
			gen,
			pre: None,
			redirect: None,
		}
	}

	fn observed(pre: &Snap) -> (u64, u64) {
		let active = pre
			.acct_path(&pre.active)
			.and_then(|p| pre.conf_height.get(&p.to_hex()).cloned())
			.unwrap_or(0);
		let max = pre.conf_height.values().cloned().max().unwrap_or(0);
		(active, max)
	}
}

impl Prop for C17 {
	fn id(&self) -> &'static str {
		"C17"
	}

	fn next(&mut self, run: &mut Run) -> Option<Step> {
		if let Some(s) = self.redirect.take() {
			return Some(s);
		}
		let st = self.gen.next(run)?;
		// sometimes present the slate with a cutoff aimed at the receiver's observed height
		let target = match &st.op {
			Op::Receive { w, m, .. } | Op::Finalize { w, m, .. } | Op::PayInvoice { w, m, .. } => {
				Some((*w, *m))
			}
			_ => None,
		};
		if let Some((w, m)) = target {
			if run.rng.chance(1, 3) && m < run.ex.msgs.len() && run.ex.world.is_open(w) {
				let snap = run.ex.world.snap(w);
				let (h, _) = Self::observed(&snap);
				let c = *run.rng.pick(&[
					h.saturating_sub(1),
					h,
					h + 1,
					h + 2,
					0,
					u64::MAX,
					1,
				]);
				let new_m = run.ex.msgs.len();
				let mut st2 = st.clone();
				match &mut st2.op {
					Op::Receive { m, .. } | Op::Finalize { m, .. } | Op::PayInvoice { m, .. } => {
						*m = new_m
					}
					_ => {}
				}
				self.redirect = Some(st2);
				return Some(Step::new(Op::Mutate {
					m,
					kind: "ttl_set".into(),
					arg: c,
				}));
			}
		}
		Some(st)
	}

	fn before(&mut self, run: &mut Run, step: &Step) {
		self.pre = None;
		if let Some(w) = step.wallet() {
			if w < run.ex.world.wallets.len() && run.ex.world.is_open(w) {
				self.pre = Some((w, run.ex.world.snap(w)));
			}
		}
	}

	fn after(&mut self, run: &mut Run, step: &Step, out: &StepOut) -> Vec<Violation> {
		let mut v = vec![];
		self.gen.feedback(run, step, out);
		if let Op::Mutate { .. } = &step.op {
			if out.new_msg.is_none() {
				self.redirect = None;
			}
		}
		let (pw, pre) = match self.pre.take() {
			Some(p) => p,
			None => return v,
		};
		match &step.op {
			Op::Receive { w, m, .. } | Op::Finalize { w, m, .. } | Op::PayInvoice { w, m, .. } => {
				if out.skipped || out.crashed || *m >= run.ex.msgs.len() || pw != *w {
					return v;
				}
				let c = run.ex.msgs[*m].slate.ttl_cutoff_height;
				let (h_active, h_max) = Self::observed(&pre);
				let rel = if c == 0 {
					"none"
				} else if h_active >= c {
					"reached"
				} else if h_max < c {
					"ahead"
				} else {
					"reached_on_other_account_only"
				};
				let n_pending = pre.txs.iter().filter(|t| crate::world::is_live(t)).count();
				let st = crate::ops::state_name(&run.ex.msgs[*m].slate.state);
				run.cov.case(
					&format!(
						"{}|{}|{}|{}|{}|{}",
						step.kind(),
						st,
						rel,
						out.ok,
						std::cmp::min(n_pending, 3),
						if c == 0 { 0 } else if c < h_active { 1 } else if c == h_active { 2 } else if c == h_active + 1 { 3 } else { 4 }
					),
					c != 0,
				);
				let expired_err = out
					.err
					.as_ref()
					.map(|e| e.contains("Expired") || e.contains("expired"))
					.unwrap_or(false);
				match rel {
					"reached" => {
						run.cov.probe("expired_slate_presented");
						if out.ok {
							v.push(run.viol(
								"expired_refused",
								&format!("expired_slate_accepted:{}", step.kind()),
								format!(
									"wallet {}: {} accepted a slate with cutoff {} although the wallet had observed height {}",
									w,
									step.kind(),
									c,
									h_active
								),
							));
							return v;
						}
						if run.ex.world.is_open(*w) {
							let post = run.ex.world.snap(*w);
							if proj(&pre) != proj(&post) {
								v.push(run.viol(
									"expired_refused",
									&format!("expired_refusal_changed_state:{}", step.kind()),
									format!("wallet {}: refusing the expired slate changed wallet state", w),
								));
								return v;
							}
						}
					}
					"ahead" | "none" => {
						if expired_err {
							v.push(run.viol(
								"unexpired_not_refused",
								&format!("unexpired_slate_refused:{}", step.kind()),
								format!(
									"wallet {}: {} refused a slate as expired: cutoff {}, highest height the wallet observed {}",
									w,
									step.kind(),
									c,
									h_max
								),
							));
							return v;
						}
					}
					_ => run.cov.not_judged("height_seen_by_non_consulted_account_only"),
				}
			}
			Op::Refresh { w } => {
				if !(out.ok && out.validated == Some(true)) || !run.ex.world.is_open(*w) {
					return v;
				}
				let post = run.ex.world.snap(*w);
				let tip = run.ex.world.chain.height();
				let acct = match pre.acct_path(&pre.active) {
					Some(a) => a,
					None => return v,
				};
				for t in pre.txs.iter().filter(|t| t.parent_key_id == acct) {
					let outstanding = !t.confirmed
						&& (t.tx_type == TxLogEntryType::TxSent || t.tx_type == TxLogEntryType::TxReceived);
					if !outstanding {
						continue;
					}
					let after = post
						.txs
						.iter()
						.find(|p| p.id == t.id && p.parent_key_id == t.parent_key_id);
					let after = match after {
						Some(a) => a,
						None => continue,
					};
					let now_cancelled = after.tx_type == TxLogEntryType::TxSentCancelled
						|| after.tx_type == TxLogEntryType::TxReceivedCancelled;
					match t.ttl_cutoff_height {
						Some(c) if tip >= c => {
							run.cov.case(&format!("refresh|expired|{:?}", t.tx_type), true);
							run.cov.probe("refresh_at_or_beyond_cutoff");
							if after.confirmed {
								continue; // it was mined in time
							}
							if !now_cancelled {
								v.push(run.viol(
									"expired_released",
									"expired_tx_not_cancelled",
									format!(
										"wallet {}: refresh at height {} left transaction {} (cutoff {}) pending",
										w, tip, t.id, c
									),
								));
								return v;
							}
							let still_locked = post.outputs.iter().any(|o| {
								o.tx_log_entry == Some(t.id)
									&& o.root_key_id == t.parent_key_id
									&& o.status == OutputStatus::Locked
							});
							if still_locked {
								v.push(run.viol(
									"expired_released",
									"expired_tx_outputs_still_locked",
									format!("wallet {}: expired transaction {} cancelled but its inputs stay locked", w, t.id),
								));
								return v;
							}
						}
						other => {
							run.cov.case(
								&format!("refresh|unexpired|{:?}|{}", t.tx_type, other.is_some()),
								other.is_some(),
							);
							if now_cancelled {
								v.push(run.viol(
									"unexpired_not_cancelled",
									"unexpired_tx_cancelled_by_refresh",
									format!(
										"wallet {}: refresh at height {} cancelled transaction {} whose cutoff is {:?}",
										w, tip, t.id, other
									),
								));
								return v;
							}
						}
					}
				}
			}
			_ => {}
		}
		if run.trace.len() == 16 {
			let s = sample_trace(run, 16);
			run.cov.sample(s);
		}
		v
	}
}
