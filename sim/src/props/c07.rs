//! C07 — the foreign API can only add funds, exactly once per slate.

use crate::gen::{GenCfg, HistGen};
use crate::mutate::SLATE_MUTATIONS;
use crate::ops::{Enc, Exec, Msg, Op, OpRes, Step, StepOut};
use crate::rng::SimRng;
use crate::run::{sample_trace, Prop, Run, Violation};
use crate::world::Snap;
use grin_core::core::FeeFields;
use grin_keychain::{ExtKeychain, Identifier, Keychain};
use grin_util::secp::key::{PublicKey, SecretKey};
use grin_util::{static_secp_instance, ToHex};
use grin_wallet_libwallet::{
	BlockFees, OutputStatus, ParticipantData, Slate, SlateState, TxLogEntryType,
};
use serde_json::{json, Value};
use std::collections::BTreeMap;
use std::convert::TryFrom;

pub struct C07 {
	gen: HistGen,
	pre: Option<(usize, Snap, BTreeMap<String, String>)>,
	redirect: Option<Step>,
	/// a receive into a named account that just succeeded (candidate for an immediate
	/// second delivery of the same slate to the same account)
	named_receive: Option<Step>,
	received: Vec<(usize, String, uuid::Uuid)>,
}

fn keypair(seed: u64) -> (SecretKey, PublicKey) {
	let mut r = SimRng::new(seed ^ 0xb12a);
	let secp = static_secp_instance();
	let secp = secp.lock();
	loop {
		let b = r.bytes(32);
		if let Ok(k) = SecretKey::from_slice(&secp, &b) {
			let p = PublicKey::from_secret_key(&secp, &k).unwrap();
			return (k, p);
		}
	}
}

impl C07 {
	pub fn new(run: &mut Run) -> C07 {
		let mut cfg = GenCfg::swarm(run);
		cfg.boundary_args = false;
		cfg.allow_late_lock = true;
		cfg.w_cancel = run.rng.below(3) as u32;
		cfg.max_inflight = 2 + run.rng.below(3) as usize;
		let gen = HistGen::new(cfg, run);
		C07 {
			gen,
			pre: None,
			redirect: None,
			named_receive: None,
			received: vec![],
		}
	}

	fn contexts(run: &Run, w: usize) -> BTreeMap<String, String> {
		let mut m = BTreeMap::new();
		for d in &run.model.deals {
			if d.initiator == w || d.payer == Some(w) {
				if let Some(c) = run.ex.world.get_context(w, d.id.as_bytes()) {
					m.insert(
						d.id.to_string(),
						serde_json::to_string(&c).unwrap_or_default(),
					);
				}
			}
		}
		m
	}

	fn byzantine(&mut self, run: &mut Run) -> Option<Step> {
		let nw = run.ex.world.wallets.len();
		let w = run.rng.idx(nw);
		let k = run.rng.below(10);
		let has_msgs = !run.ex.msgs.is_empty();
		match k {
			0 | 1 if has_msgs => {
				// any message on the wire, to the victim's receive_tx
				let m = run.rng.idx(run.ex.msgs.len());
				let dest = match run.rng.below(4) {
					0 => Some("nosuchaccount".to_owned()),
					1 if w < self.gen.labels.len() => Some(run.rng.pick(&self.gen.labels[w]).clone()),
					_ => None,
				};
				Some(Step::new(Op::Receive {
					w,
					m,
					dest,
					enc: Enc::Mem,
				}))
			}
			2 | 3 | 4 if has_msgs => {
				// mutate a harvested message, then hand it to receive_tx or finalize_tx
				let m = run.rng.idx(run.ex.msgs.len());
				let kind = (*run.rng.pick(SLATE_MUTATIONS)).to_owned();
				let new_m = run.ex.msgs.len();
				// aim at the wallet that has a stake in this slate most of the time
				let victim = run
					.model
					.deal_of_msg(run, m)
					.map(|d| run.model.deals[d].initiator)
					.filter(|_| run.rng.chance(3, 4))
					.unwrap_or(w);
				self.redirect = Some(if run.rng.chance(1, 2) {
					Step::new(Op::Finalize {
						w: victim,
						m: new_m,
						foreign: true,
					})
				} else {
					Step::new(Op::Receive {
						w: victim,
						m: new_m,
						dest: None,
						enc: Enc::Mem,
					})
				});
				Some(Step::new(Op::Mutate {
					m,
					kind,
					arg: run.rng.next_u64() >> 8,
				}))
			}
			5 | 6 => {
				// forged slate, possibly carrying the id of one of the victim's pending transactions
				let id_from = if has_msgs && run.rng.chance(1, 2) {
					Some(run.rng.idx(run.ex.msgs.len()))
				} else {
					None
				};
				let amount = *run.rng.pick(&[0u64, 1, 1_000_000_000, 60_000_000_000, u64::MAX, 1 << 40]);
				Some(Step::new(Op::Custom {
					name: "forge".into(),
					args: json!({
						"w": w,
						"id_from": id_from,
						"amount": amount,
						"fee": *run.rng.pick(&[0u64, 1, 23_500_000, 1 << 39]),
						"state": run.rng.below(7),
						"ttl": *run.rng.pick(&[0u64, 0, 1, u64::MAX]),
						"parts": run.rng.below(4),
						"via": if run.rng.chance(1, 3) { "finalize" } else { "receive" },
						"seed": run.rng.below(1 << 40),
					}),
				}))
			}
			7 | 8 => {
				// build_coinbase with an arbitrary key id: guessable paths of existing outputs
				let snap = run.ex.world.snap(w);
				let mut named_height: Option<u64> = None;
				let key = if !snap.outputs.is_empty() && run.rng.chance(2, 3) {
					let o = run.rng.pick(&snap.outputs);
					named_height = Some(o.height);
					Some(o.key_id.to_hex())
				} else if run.rng.chance(1, 2) {
					Some(ExtKeychain::derive_key_id(3, run.rng.below(3) as u32, 0, run.rng.below(12) as u32, 0).to_hex())
				} else {
					None
				};
				// a stale, replayed or forged miner request may name any height: the tip and
				// just above (the honest case), but also heights around the named output's
				// own, the chain start and far ahead
				let cb_height: u64 = {
							let tip = run.ex.world.chain.height();
							let oh = named_height.unwrap_or(tip);
							match run.rng.below(10) {
								0 => 0,
								1 => 1,
								2 => oh.saturating_sub(1),
								3 => oh,
								4 => oh + 1,
								5 => tip.saturating_sub(run.rng.below(4)),
								6 => tip + 1000,
								_ => tip + run.rng.below(3),
							}
						};
				Some(Step::new(Op::Custom {
					name: "coinbase".into(),
					args: json!({
						"w": w,
						"key": key,
						"height": cb_height,
						"fees": *run.rng.pick(&[0u64, 1, 1_000_000, u64::MAX / 2]),
					}),
				}))
			}
			_ => Some(Step::new(Op::Custom {
				name: "check_version".into(),
				args: json!({ "w": w }),
			})),
		}
	}

	fn is_foreign_call(step: &Step) -> bool {
		match &step.op {
			Op::Receive { .. } => true,
			Op::Finalize { foreign, .. } => *foreign,
			Op::Custom { name, .. } => name == "forge" || name == "coinbase" || name == "check_version",
			_ => false,
		}
	}
}

impl Prop for C07 {
	fn id(&self) -> &'static str {
		"C07"
	}

	fn custom(&mut self, ex: &mut Exec, name: &str, a: &Value) -> OpRes {
		let w = a["w"].as_u64().unwrap_or(0) as usize;
		if w >= ex.world.wallets.len() || !ex.world.is_open(w) {
			return OpRes::Skipped("unavailable".into());
		}
		match name {
			"check_version" => match ex.world.foreign(w).check_version() {
				Ok(_) => OpRes::Ok {
					new_msg: None,
					note: String::new(),
					validated: None,
					new_wallet: None,
				},
				Err(e) => OpRes::Err(format!("{}", e)),
			},
			"coinbase" => {
				let key = a["key"].as_str().and_then(|k| Identifier::from_hex(k).ok());
				let bf = BlockFees {
					fees: a["fees"].as_u64().unwrap_or(0),
					height: a["height"].as_u64().unwrap_or(1),
					key_id: key,
				};
				match ex.world.foreign(w).build_coinbase(&bf) {
					Ok(cb) => OpRes::Ok {
						new_msg: None,
						note: cb.key_id.map(|k| k.to_hex()).unwrap_or_default(),
						validated: None,
						new_wallet: None,
					},
					Err(e) => OpRes::Err(format!("{}", e)),
				}
			}
			"forge" => {
				let seed = a["seed"].as_u64().unwrap_or(0);
				let mut s = Slate::blank(2, false);
				if let Some(m) = a["id_from"].as_u64() {
					if (m as usize) < ex.msgs.len() {
						s.id = ex.msgs[m as usize].slate.id;
					}
				} else {
					let mut r = SimRng::new(seed);
					s.id = uuid::Uuid::from_slice(&r.bytes(16)).unwrap();
				}
				s.amount = a["amount"].as_u64().unwrap_or(0);
				s.fee_fields = FeeFields::try_from(a["fee"].as_u64().unwrap_or(0)).unwrap_or(FeeFields::zero());
				s.ttl_cutoff_height = a["ttl"].as_u64().unwrap_or(0);
				s.state = [
					SlateState::Unknown,
					SlateState::Standard1,
					SlateState::Standard2,
					SlateState::Standard3,
					SlateState::Invoice1,
					SlateState::Invoice2,
					SlateState::Invoice3,
				][(a["state"].as_u64().unwrap_or(1) % 7) as usize]
					.clone();
				for i in 0..a["parts"].as_u64().unwrap_or(1) {
					let (_, xs) = keypair(seed.wrapping_add(i * 2));
					let (_, nonce) = keypair(seed.wrapping_add(i * 2 + 1));
					s.participant_data.push(ParticipantData {
						public_blind_excess: xs,
						public_nonce: nonce,
						part_sig: None,
					});
				}
				let via_finalize = a["via"].as_str() == Some("finalize");
				let f = ex.world.foreign(w);
				let r = if via_finalize {
					f.finalize_tx(&s, false)
				} else {
					f.receive_tx(&s, None, None)
				};
				match r {
					Ok(rs) => OpRes::Ok {
						new_msg: Some(Msg {
							slate: rs,
							from: Some(w),
							parent: None,
							mutated: Some("forged".into()),
							tx: None,
						}),
						note: format!("forged:{}:{}", s.id, if via_finalize { "finalize" } else { "receive" }),
						validated: None,
						new_wallet: None,
					},
					Err(e) => OpRes::Err(format!("{}", e)),
				}
			}
			_ => OpRes::Skipped("unknown custom op".into()),
		}
	}

	fn next(&mut self, run: &mut Run) -> Option<Step> {
		if let Some(s) = self.redirect.take() {
			return Some(s);
		}
		if let Some(s) = self.named_receive.take() {
			// "a second delivery of the same slate to that account is refused": also when
			// that account was named by the request and is not the active one
			if run.rng.chance(1, 2) {
				run.cov.probe("second_delivery_into_a_named_account");
				return Some(s);
			}
		}
		if self.gen.setup_done && run.rng.chance(2, 5) {
			if let Some(s) = self.byzantine(run) {
				return Some(s);
			}
		}
		self.gen.next(run)
	}

	fn before(&mut self, run: &mut Run, step: &Step) {
		self.pre = None;
		if !Self::is_foreign_call(step) {
			return;
		}
		if let Some(w) = step.wallet() {
			if w < run.ex.world.wallets.len() && run.ex.world.is_open(w) {
				self.pre = Some((w, run.ex.world.snap(w), Self::contexts(run, w)));
			}
		}
	}

	fn after(&mut self, run: &mut Run, step: &Step, out: &StepOut) -> Vec<Violation> {
		let mut v = vec![];
		self.gen.feedback(run, step, out);
		if let Op::Receive { dest: Some(_), .. } = &step.op {
			let repeat = run.trace.len() >= 2 && run.trace[run.trace.len() - 2].op == step.op;
			if out.ok && !repeat {
				let mut s = step.clone();
				s.fault = None;
				s.node_fail = None;
				self.named_receive = Some(s);
			}
		}
		if let Op::Mutate { .. } = &step.op {
			if out.new_msg.is_none() {
				self.redirect = None;
			}
		}
		let (w, pre, ctx_pre) = match self.pre.take() {
			Some(p) => p,
			None => return v,
		};
		if out.skipped || out.crashed || !run.ex.world.is_open(w) {
			return v;
		}
		let post = run.ex.world.snap(w);
		// classify the request
		let (method, slate_class, slate): (&str, String, Option<Slate>) = match &step.op {
			Op::Receive { m, .. } => {
				let msg = &run.ex.msgs[*m];
				(
					"receive_tx",
					format!(
						"{}|{}",
						msg.mutated.clone().unwrap_or_else(|| "harvested".into()),
						crate::ops::state_name(&msg.slate.state)
					),
					Some(msg.slate.clone()),
				)
			}
			Op::Finalize { m, .. } => {
				let msg = &run.ex.msgs[*m];
				(
					"finalize_tx",
					format!(
						"{}|{}",
						msg.mutated.clone().unwrap_or_else(|| "harvested".into()),
						crate::ops::state_name(&msg.slate.state)
					),
					Some(msg.slate.clone()),
				)
			}
			Op::Custom { name, args } => (
				if name == "forge" {
					if args["via"].as_str() == Some("finalize") {
						"finalize_tx"
					} else {
						"receive_tx"
					}
				} else if name == "coinbase" {
					"build_coinbase"
				} else {
					"check_version"
				},
				if name == "forge" {
					format!("forged|{}|{}", args["state"], args["id_from"].is_null())
				} else if name == "coinbase" {
					format!("key:{}", if args["key"].is_null() { "none" } else { "given" })
				} else {
					String::new()
				},
				None,
			),
			_ => return v,
		};
		run.cov.case(&format!("{}|{}|{}", method, slate_class, out.ok), true);
		// a refused reply to one of the victim's late-locked transactions (known defect:
		// inputs are selected, the context rewritten and outputs reserved before the
		// reply's signature data is verified)
		let late_lock_target = method == "finalize_tx"
			&& !out.ok
			&& match &step.op {
				Op::Finalize { m, .. } => run
					.model
					.deal_of(&run.ex.msgs[*m].slate.id)
					.map(|d| run.model.deals[d].late_lock && run.model.deals[d].initiator == w)
					.unwrap_or(false),
				Op::Custom { args, .. } => args["id_from"]
					.as_u64()
					.and_then(|m| run.ex.msgs.get(m as usize))
					.and_then(|msg| run.model.deal_of(&msg.slate.id))
					.map(|d| run.model.deals[d].late_lock && run.model.deals[d].initiator == w)
					.unwrap_or(false),
				_ => false,
			};
		if late_lock_target {
			run.cov.probe("forged_reply_to_late_locked_transaction");
			let changed = pre.out_proj() != post.out_proj()
				|| pre.txs.len() != post.txs.len()
				|| ctx_pre != Self::contexts(run, w);
			if changed {
				v.push(run.viol(
					"existing_outputs_untouched",
					"finalize_tx:late_lock_reserved_before_verification",
					format!(
						"wallet {}: a refused reply ({}) to its late-locked transaction selected and reserved inputs / rewrote the private context before the reply was verified: {}",
						w,
						slate_class,
						out.err.clone().unwrap_or_default()
					),
				));
			}
			return v;
		}

		// a successful finalize means the reply was validly counter-signed: out of this
		// property's scope (C02 judges it)
		if method == "finalize_tx" && out.ok {
			run.cov.not_judged("valid_countersigned_reply");
			return v;
		}
		// so is an unaltered reply that an honest wallet produced for this wallet's own
		// unaltered slate, whatever finalize_tx answers
		if let Op::Finalize { m, .. } = &step.op {
			let msg = &run.ex.msgs[*m];
			let honest_reply = msg.mutated.is_none()
				&& msg
					.parent
					.map(|p| run.ex.msgs[p].mutated.is_none() && run.ex.msgs[p].from == Some(w))
					.unwrap_or(false);
			if honest_reply {
				run.cov.not_judged("honest_reply_to_own_slate");
				return v;
			}
		}

		// 1. every pre-existing output keeps status and value; nothing disappears
		for o in &pre.outputs {
			let p = post
				.outputs
				.iter()
				.find(|x| x.key_id == o.key_id && x.mmr_index == o.mmr_index);
			match p {
				None => {
					v.push(run.viol(
						"existing_outputs_untouched",
						&format!("{}:output_deleted", method),
						format!("wallet {}: {} removed output {} ({} {})", w, method, o.key_id.to_hex(), o.value, o.status),
					));
					return v;
				}
				Some(p) => {
					if method == "build_coinbase" && o.is_coinbase && o.status == OutputStatus::Unconfirmed {
						// a mining node may re-request the still-unconfirmed candidate
						run.cov.not_judged("coinbase_candidate_replaced");
						continue;
					}
					if p.status != o.status || p.value != o.value || p.is_coinbase != o.is_coinbase {
						let sig = if o.status != p.status && p.status == OutputStatus::Locked {
							format!("{}:output_locked", method)
						} else {
							format!("{}:output_changed", method)
						};
						v.push(run.viol(
							"existing_outputs_untouched",
							&sig,
							format!(
								"wallet {}: {} ({}) changed output {}: {} {} coinbase={} -> {} {} coinbase={}",
								w,
								method,
								slate_class,
								o.key_id.to_hex(),
								o.value,
								o.status,
								o.is_coinbase,
								p.value,
								p.status,
								p.is_coinbase
							),
						));
						return v;
					}
				}
			}
		}
		// 2. no pending transaction's private data is consumed or altered
		let ctx_post = Self::contexts(run, w);
		for (id, c) in &ctx_pre {
			match ctx_post.get(id) {
				None => {
					v.push(run.viol(
						"contexts_untouched",
						&format!("{}:context_consumed", method),
						format!("wallet {}: {} removed the private context of pending transaction {}", w, method, id),
					));
					return v;
				}
				Some(c2) if c2 != c => {
					v.push(run.viol(
						"contexts_untouched",
						&format!("{}:context_changed", method),
						format!("wallet {}: {} ({}) rewrote the private context of pending transaction {}", w, method, slate_class, id),
					));
					return v;
				}
				_ => {}
			}
		}
		// 3. existing log entries keep their type / confirmation
		for t in &pre.txs {
			let p = post
				.txs
				.iter()
				.find(|x| x.id == t.id && x.parent_key_id == t.parent_key_id);
			match p {
				Some(p) if p.tx_type == t.tx_type && p.confirmed == t.confirmed => {}
				_ => {
					v.push(run.viol(
						"log_untouched",
						&format!("{}:log_entry_changed", method),
						format!("wallet {}: {} changed log entry {}", w, method, t.id),
					));
					return v;
				}
			}
		}
		// 4. what a successful receive adds
		if method == "receive_tx" {
			let new_outs: Vec<_> = post
				.outputs
				.iter()
				.filter(|x| {
					!pre.outputs
						.iter()
						.any(|o| o.key_id == x.key_id && o.mmr_index == x.mmr_index)
				})
				.collect();
			let new_txs: Vec<_> = post
				.txs
				.iter()
				.filter(|x| {
					!pre.txs
						.iter()
						.any(|t| t.id == x.id && t.parent_key_id == x.parent_key_id)
				})
				.collect();
			if out.ok {
				let amount = match (&slate, &step.op) {
					(Some(s), _) => s.amount,
					(None, Op::Custom { args, .. }) => args["amount"].as_u64().unwrap_or(0),
					_ => 0,
				};
				let id = match (&slate, out.new_msg) {
					(Some(s), _) => Some(s.id),
					(None, Some(nm)) => Some(run.ex.msgs[nm].slate.id),
					_ => None,
				};
				let good = new_outs.len() == 1
					&& new_outs[0].status == OutputStatus::Unconfirmed
					&& new_outs[0].value == amount
					&& !new_outs[0].is_coinbase
					&& new_txs.len() == 1
					&& new_txs[0].tx_type == TxLogEntryType::TxReceived
					&& new_txs[0].amount_credited == amount
					&& new_txs[0].amount_debited == 0
					&& new_txs[0].parent_key_id == new_outs[0].root_key_id;
				if !good {
					v.push(run.viol(
						"receive_adds_exactly_one",
						"receive_added_wrong_records",
						format!(
							"wallet {}: successful receive of {} added {} outputs {:?} and {} log entries",
							w,
							amount,
							new_outs.len(),
							new_outs.iter().map(|o| (o.value, format!("{}", o.status))).collect::<Vec<_>>(),
							new_txs.len()
						),
					));
					return v;
				}
				// destination account
				if let Op::Receive { dest, .. } = &step.op {
					let want = dest.clone().unwrap_or(pre.active.clone());
					if pre.acct_path(&want).is_some() {
						if pre.acct_path(&want).as_ref() != Some(&new_outs[0].root_key_id) {
							v.push(run.viol(
								"receive_adds_exactly_one",
								"received_into_wrong_account",
								format!("wallet {}: receive for account {} booked under {}", w, want, post.acct_label(&new_outs[0].root_key_id)),
							));
							return v;
						}
					} else {
						run.cov.not_judged("unknown_destination_account");
					}
				}
				// the reply carries only the recipient's own signature data
				if let Some(nm) = out.new_msg {
					let rs = &run.ex.msgs[nm].slate;
					if rs.participant_data.len() != 1 {
						v.push(run.viol(
							"reply_only_own_data",
							"reply_participant_count",
							format!("wallet {}: receive reply carries {} participant entries", w, rs.participant_data.len()),
						));
						return v;
					}
				}
				// second delivery to the same account must be refused
				if let Some(id) = id {
					let acct = post.acct_label(&new_outs[0].root_key_id);
					if self.received.iter().any(|(rw, ra, rid)| *rw == w && *ra == acct && *rid == id) {
						// was the earlier one cancelled in between? then not judged
						let cancelled = pre.txs.iter().any(|t| {
							t.tx_slate_id == Some(id) && t.tx_type == TxLogEntryType::TxReceivedCancelled
						});
						if cancelled {
							run.cov.not_judged("redelivery_after_cancel");
						} else {
							v.push(run.viol(
								"exactly_once",
								"second_delivery_accepted",
								format!("wallet {}: slate {} was received twice into account {}", w, id, acct),
							));
							return v;
						}
					}
					self.received.push((w, acct, id));
				}
			} else if !new_outs.is_empty() || !new_txs.is_empty() {
				v.push(run.viol(
					"refused_without_effect",
					"failed_receive_left_records",
					format!(
						"wallet {}: receive_tx returned an error ({}) but left {} new output(s) and {} new log entr(ies)",
						w,
						out.err.clone().unwrap_or_default(),
						new_outs.len(),
						new_txs.len()
					),
				));
				return v;
			}
		}
		if method == "finalize_tx" && !out.ok {
			// refused: nothing new either
			if post.outputs.len() != pre.outputs.len() || post.txs.len() != pre.txs.len() {
				v.push(run.viol(
					"refused_without_effect",
					"failed_finalize_left_records",
					format!(
						"wallet {}: foreign finalize_tx failed ({}) but outputs {}->{} log entries {}->{}",
						w,
						out.err.clone().unwrap_or_default(),
						pre.outputs.len(),
						post.outputs.len(),
						pre.txs.len(),
						post.txs.len()
					),
				));
				return v;
			}
		}
		if run.trace.len() == 16 {
			let s = sample_trace(run, 16);
			run.cov.sample(s);
		}
		v
	}
}
