//! C11 — payment proofs are sound end to end.

use crate::gen::{GenCfg, HistGen};
use crate::model::DealKind;
use crate::mutate::dalek_pk_from;
use crate::ops::{Exec, Op, OpRes, Step, StepOut};
use crate::run::{sample_trace, Prop, Run, Violation};
use byteorder::{BigEndian, WriteBytesExt};
use ed25519_dalek::Verifier;
use grin_util::secp::pedersen::Commitment;
use grin_wallet_libwallet::SlatepackAddress;
use serde_json::{json, Value};
use std::convert::TryFrom;

const PROOF_MUTS: &[&str] = &[
	"none",
	"none",
	"amount_plus",
	"amount_minus",
	"excess_other",
	"raddr_rand",
	"saddr_rand",
	"raddr_swap",
	"rsig_flip",
	"ssig_flip",
	"sigs_swap",
];

const REPLY_MUTS: &[&str] = &[
	"proof_strip",
	"proof_sig_flip",
	"proof_sig_strip",
	"proof_raddr_rand",
	"proof_saddr_rand",
	"proof_sig_other",
	"proof_resign_other",
	"proof_resign_other",
	"proof_resign_amount",
	"proof_resign_amount",
	"amount_plus",
	"amount_minus",
	"part_key_rand",
];

pub struct C11 {
	gen: HistGen,
	pending_mut: Option<(usize, usize)>,
	p_mutate: u64,
	/// scripted steps (LIFO): a mined proof transaction is re-organised away and then
	/// verified by each party
	queue: Vec<Step>,
	reorg_scripts_left: u32,
	/// scripted: a proof-carrying send from an account that is not the active one,
	/// carried through to the chain, then exported and verified by everybody
	src_script: Option<crate::gen::SendScript>,
	src_scripts_left: u32,
}

fn proof_msg(amount: u64, excess: &Commitment, sender: &ed25519_dalek::PublicKey) -> Vec<u8> {
	let mut msg = Vec::new();
	msg.write_u64::<BigEndian>(amount).unwrap();
	msg.extend_from_slice(&excess.0);
	msg.extend_from_slice(&sender.to_bytes());
	msg
}

impl C11 {
	pub fn new(run: &mut Run) -> C11 {
		let mut cfg = GenCfg::swarm(run);
		cfg.allow_proof = true;
		cfg.boundary_args = false;
		cfg.w_new_invoice = 0;
		cfg.w_new_send += 10;
		cfg.w_cancel = 0;
		cfg.w_mine += 4;
		cfg.n_wallets = 3;
		if cfg.fund_blocks.len() < 3 {
			cfg.fund_blocks.push(2);
		}
		cfg.w_fork = run.rng.below(3) as u32;
		cfg.allow_cancel_after_post = false;
		let p_mutate = if run.rng.chance(1, 4) { 0 } else { 15 + run.rng.below(35) };
		let gen = HistGen::new(cfg, run);
		C11 {
			gen,
			pending_mut: None,
			p_mutate,
			queue: vec![],
			reorg_scripts_left: if run.rng.chance(1, 2) { 1 } else { 0 },
			src_script: None,
			src_scripts_left: if run.rng.chance(1, 2) { 1 } else { 0 },
		}
	}
}

impl Prop for C11 {
	fn id(&self) -> &'static str {
		"C11"
	}

	fn custom(&mut self, ex: &mut Exec, name: &str, a: &Value) -> OpRes {
		if name != "verify_proof" {
			return OpRes::Skipped("unknown custom op".into());
		}
		let w = a["w"].as_u64().unwrap_or(0) as usize;
		let sender = a["sender"].as_u64().unwrap_or(0) as usize;
		let m = a["m"].as_u64().unwrap_or(0) as usize;
		let kind = a["mut"].as_str().unwrap_or("none");
		let arg = a["arg"].as_u64().unwrap_or(0);
		if w >= ex.world.wallets.len()
			|| sender >= ex.world.wallets.len()
			|| m >= ex.msgs.len()
			|| !ex.world.is_open(w)
			|| !ex.world.is_open(sender)
		{
			return OpRes::Skipped("unavailable".into());
		}
		let id = ex.msgs[m].slate.id;
		let so = ex.world.owner(sender);
		// the proof is exported from the account the payment was sent from (the user
		// switches to it; a send may have named a source account other than the active one)
		let ssnap = ex.world.snap(sender);
		let src = ssnap
			.txs
			.iter()
			.find(|t| t.tx_slate_id == Some(id) && t.tx_type == grin_wallet_libwallet::TxLogEntryType::TxSent)
			.map(|t| ssnap.acct_label(&t.parent_key_id));
		let switched = match &src {
			Some(l) if *l != ssnap.active => so.set_active_account(ex.world.mask(sender).as_ref(), l).is_ok(),
			_ => false,
		};
		let exported = so.retrieve_payment_proof(ex.world.mask(sender).as_ref(), false, None, Some(id));
		if switched {
			let _ = so.set_active_account(ex.world.mask(sender).as_ref(), &ssnap.active);
		}
		let mut proof = match exported {
			Ok(p) => p,
			Err(e) => return OpRes::Skipped(format!("no proof to export: {}", e)),
		};
		match kind {
			"none" => {}
			"amount_plus" => proof.amount = proof.amount.wrapping_add(1 + arg % 1000),
			"amount_minus" => proof.amount = proof.amount.wrapping_sub(1 + arg % 1000),
			"excess_other" => {
				// the excess of another kernel that *is* on chain
				let blocks = &ex.world.chain.blocks;
				let ks: Vec<Commitment> = blocks.iter().flat_map(|b| b.kernels.clone()).collect();
				let other = ks
					.iter()
					.filter(|k| **k != proof.excess)
					.nth((arg as usize) % std::cmp::max(1, ks.len()));
				match other {
					Some(k) => proof.excess = *k,
					None => return OpRes::Skipped("no other kernel".into()),
				}
			}
			"raddr_rand" => proof.recipient_address = SlatepackAddress::new(&dalek_pk_from(arg)),
			"saddr_rand" => proof.sender_address = SlatepackAddress::new(&dalek_pk_from(arg)),
			"raddr_swap" => {
				let t = proof.recipient_address.clone();
				proof.recipient_address = proof.sender_address.clone();
				proof.sender_address = t;
			}
			"rsig_flip" => {
				let mut b = proof.recipient_sig.to_bytes();
				b[(arg % 32) as usize] ^= 1 << (arg % 8);
				match ed25519_dalek::Signature::try_from(&b[..]) {
					Ok(s) => proof.recipient_sig = s,
					Err(_) => return OpRes::Skipped("unencodable".into()),
				}
			}
			"ssig_flip" => {
				let mut b = proof.sender_sig.to_bytes();
				b[(arg % 32) as usize] ^= 1 << (arg % 8);
				match ed25519_dalek::Signature::try_from(&b[..]) {
					Ok(s) => proof.sender_sig = s,
					Err(_) => return OpRes::Skipped("unencodable".into()),
				}
			}
			"sigs_swap" => {
				let t = proof.recipient_sig;
				proof.recipient_sig = proof.sender_sig;
				proof.sender_sig = t;
			}
			_ => return OpRes::Skipped("unknown mutation".into()),
		}
		let vo = ex.world.owner(w);
		match vo.verify_payment_proof(ex.world.mask(w).as_ref(), &proof) {
			Ok((s, r)) => OpRes::Ok {
				new_msg: None,
				note: format!("verified sender_mine={} recipient_mine={}", s, r),
				validated: None,
				new_wallet: None,
			},
			Err(e) => OpRes::Err(format!("{}", e)),
		}
	}

	fn next(&mut self, run: &mut Run) -> Option<Step> {
		if let Some((d, m)) = self.pending_mut.take() {
			if m < run.ex.msgs.len() {
				let w = run.model.deals[d].initiator;
				return Some(Step::new(Op::Finalize {
					w,
					m,
					foreign: false,
				}));
			}
		}
		if let Some(s) = self.queue.pop() {
			return Some(s);
		}
		if let Some(sc) = self.src_script.as_mut() {
			match sc.next() {
				Some(s) => return Some(s),
				None => {
					let sc = self.src_script.take().unwrap();
					if !sc.failed {
						if let Some(m1) = sc.m1 {
							let nw = run.ex.world.wallets.len();
							let mut seq = vec![];
							for w in 0..nw {
								seq.push(Step::new(Op::Refresh { w }));
								seq.push(Step::new(Op::Custom {
									name: "verify_proof".into(),
									args: json!({"w": w, "sender": sc.a, "m": m1, "mut": "none", "arg": 0}),
								}));
							}
							run.cov.probe("proof_of_a_send_from_a_non_active_account_verified");
							seq.reverse();
							self.queue = seq;
							return self.queue.pop();
						}
					}
				}
			}
		}
		if self.gen.setup_done && self.src_scripts_left > 0 && run.rng.chance(1, 6) && !run.ex.world.chain.is_down() {
			// a wallet with funds in an account other than the active one
			let nw = run.ex.world.wallets.len();
			let tip = run.ex.world.chain.height();
			let mut cands: Vec<(usize, String, u64)> = vec![];
			for w in 0..nw {
				if !run.ex.world.is_open(w) {
					continue;
				}
				let snap = run.ex.world.snap(w);
				for a in &snap.accts {
					if a.label == snap.active {
						continue;
					}
					let sp: u64 = snap
						.outputs
						.iter()
						.filter(|o| o.root_key_id == a.path && o.status == grin_wallet_libwallet::OutputStatus::Unspent && o.lock_height <= tip)
						.map(|o| o.value)
						.sum();
					if sp > 2_000_000_000 {
						cands.push((w, a.label.clone(), sp));
					}
				}
			}
			if !cands.is_empty() && nw >= 2 {
				let (a, label, sp) = run.rng.pick(&cands).clone();
				let b = (a + 1 + run.rng.idx(nw - 1)) % nw;
				if run.ex.world.is_open(b) {
					self.src_scripts_left -= 1;
					let mut args = crate::ops::SendArgs::simple(sp / 4 + run.rng.below(1000));
					args.min_conf = 1;
					args.max_outputs = 500;
					args.num_change = 1;
					args.src_acct = Some(label);
					args.proof_to = Some(b);
					args.late_lock = run.rng.chance(1, 4);
					self.src_script = Some(crate::gen::SendScript::new(a, b, args, 6));
					return self.src_script.as_mut().unwrap().next();
				}
			}
		}
		// scripted: both parties see the proof transaction confirmed, the chain
		// re-organises it away, then sender, recipient and a bystander verify the proof
		if self.gen.setup_done && self.reorg_scripts_left > 0 && run.rng.chance(1, 5) {
			let tip = run.ex.world.chain.height();
			let cands: Vec<usize> = run
				.model
				.deals
				.iter()
				.enumerate()
				.filter(|(_, d)| {
					d.proof && d.finalized && d.kind == DealKind::Send && d.payee.is_some()
						&& d.mined.map(|h| tip + 1 - h <= 5 && tip + 1 - h < tip).unwrap_or(false)
				})
				.map(|(i, _)| i)
				.collect();
			if !cands.is_empty() {
				self.reorg_scripts_left -= 1;
				let d = *run.rng.pick(&cands);
				let deal = run.model.deals[d].clone();
				let depth = tip + 1 - deal.mined.unwrap();
				let nw = run.ex.world.wallets.len();
				let mut seq = vec![
					Step::new(Op::Refresh { w: deal.initiator }),
					Step::new(Op::Refresh { w: deal.payee.unwrap() }),
					Step::new(Op::Fork { depth, extra: run.rng.range(1, 2), include: false, readd: false }),
				];
				let mut verifiers = vec![deal.initiator, deal.payee.unwrap()];
				for w in 0..nw {
					if !verifiers.contains(&w) {
						verifiers.push(w);
						break;
					}
				}
				for w in verifiers {
					if run.rng.chance(1, 2) {
						seq.push(Step::new(Op::Refresh { w }));
					}
					seq.push(Step::new(Op::Custom {
						name: "verify_proof".into(),
						args: json!({"w": w, "sender": deal.initiator, "m": deal.m1, "mut": "none", "arg": 0}),
					}));
				}
				run.cov.probe("reorg_then_verify_scripted");
				seq.reverse();
				self.queue = seq;
				return self.queue.pop();
			}
		}
		// verification steps for finalized proof-carrying deals
		if self.gen.setup_done && run.rng.chance(1, 4) {
			let cands: Vec<usize> = run
				.model
				.deals
				.iter()
				.enumerate()
				.filter(|(_, d)| d.proof && d.finalized && d.kind == DealKind::Send)
				.map(|(i, _)| i)
				.collect();
			if !cands.is_empty() {
				let d = *run.rng.pick(&cands);
				let deal = &run.model.deals[d];
				let nw = run.ex.world.wallets.len();
				return Some(Step::new(Op::Custom {
					name: "verify_proof".into(),
					args: json!({
						"w": run.rng.idx(nw),
						"sender": deal.initiator,
						"m": deal.m1,
						"mut": *run.rng.pick(PROOF_MUTS),
						"arg": run.rng.below(1 << 30),
					}),
				}));
			}
		}
		let st = self.gen.next(run)?;
		if let Op::Finalize { m, .. } = &st.op {
			if self.p_mutate > 0 && run.rng.chance(self.p_mutate, 100) && *m < run.ex.msgs.len() {
				if let Some(d) = run.model.deal_of_msg(run, *m) {
					if run.model.deals[d].proof
						&& run.ex.msgs[*m].mutated.is_none()
						&& !run.model.deals[d].finalized
					{
						let kind = (*run.rng.pick(REPLY_MUTS)).to_owned();
						self.pending_mut = Some((d, run.ex.msgs.len()));
						return Some(Step::new(Op::Mutate {
							m: *m,
							kind,
							arg: run.rng.next_u64() >> 8,
						}));
					}
				}
			}
		}
		Some(st)
	}

	fn after(&mut self, run: &mut Run, step: &Step, out: &StepOut) -> Vec<Violation> {
		let mut v = vec![];
		self.gen.feedback(run, step, out);
		if let Some(sc) = self.src_script.as_mut() {
			sc.feedback(step, out);
		}
		if let Op::Mutate { .. } = &step.op {
			if out.new_msg.is_none() {
				self.pending_mut = None;
			}
		}
		match &step.op {
			Op::Finalize { w, m, .. } if *m < run.ex.msgs.len() => {
				let d = match run.model.deal_of_msg(run, *m) {
					Some(d) => d,
					None => return v,
				};
				let deal = run.model.deals[d].clone();
				if !deal.proof || deal.kind != DealKind::Send {
					return v;
				}
				let reply = run.ex.msgs[*m].slate.clone();
				let mutated = run.ex.msgs[*m].mutated.clone();
				let receiver_is_requested = {
					// who actually answered? (a different wallet than the one whose address was requested)
					let req = match &run.trace[deal.created_at_step].op {
						Op::InitSend { args, .. } => args.proof_to,
						_ => None,
					};
					req == deal.payee
				};
				run.cov.case(
					&format!(
						"finalize|{}|{}|{}",
						mutated.clone().unwrap_or_else(|| "honest".into()),
						receiver_is_requested,
						out.ok
					),
					true,
				);
				if out.ok {
					let s1 = run.ex.msgs[deal.m1].slate.clone();
					let req = match s1.payment_proof {
						Some(p) => p,
						None => return v,
					};
					let tx = match out.new_msg.and_then(|nm| run.ex.msgs[nm].slate.tx.clone()) {
						Some(t) => t,
						None => return v,
					};
					let excess = tx.kernels()[0].excess;
					let bad = |why: &str| -> Option<String> { Some(why.to_owned()) };
					let problem: Option<String> = match &reply.payment_proof {
						None => bad("proof_stripped"),
						Some(p) => {
							if p.receiver_address != req.receiver_address {
								bad("other_recipient_address")
							} else {
								match p.receiver_signature {
									None => bad("signature_missing"),
									Some(sig) => {
										let msg = proof_msg(deal.amount, &excess, &req.sender_address);
										if req.receiver_address.verify(&msg, &sig).is_err() {
											bad("signature_invalid")
										} else {
											None
										}
									}
								}
							}
						}
					};
					if let Some(p) = problem {
						v.push(run.viol(
							"finalize_requires_valid_proof",
							&format!("finalize_accepted_bad_proof:{}", p),
							format!(
								"wallet {}: finalize succeeded although the reply's payment proof is not the requested recipient's valid signature over (amount {}, final excess, sender address): {} (reply mutation: {:?})",
								w, deal.amount, p, mutated
							),
						));
						return v;
					}
					run.cov.probe("finalize_with_valid_proof");
				} else if out.err.is_some() && mutated.is_none() && receiver_is_requested {
					// an honest reply from the requested recipient must not be refused for
					// its proof
					let e = out.err.clone().unwrap_or_default();
					if e.contains("Payment Proof") && !deal.finalized {
						// destination account != the account whose address was requested is
						// a recipient-side choice the statement leaves open
						let dest_other_acct = run.trace.iter().any(|s| {
							matches!(&s.op, Op::Receive { m: rm, dest: Some(_), .. } if run.model.deal_of_msg(run, *rm) == Some(d))
						});
						if dest_other_acct {
							run.cov.not_judged("honest_reply_refused:received_into_other_account");
						} else {
							run.cov.not_judged("honest_reply_refused");
						}
					}
				}
			}
			Op::Custom { name, args } if name == "verify_proof" => {
				if out.skipped {
					return v;
				}
				let m = args["m"].as_u64().unwrap_or(0) as usize;
				let w = args["w"].as_u64().unwrap_or(0) as usize;
				let kind = args["mut"].as_str().unwrap_or("none").to_owned();
				let d = match run.model.deal_of_msg(run, m) {
					Some(d) => d,
					None => return v,
				};
				let deal = run.model.deals[d].clone();
				let on_chain = deal.mined.is_some();
				let chain_state = if on_chain {
					"mined"
				} else if deal.ever_mined {
					"reorged_away"
				} else {
					"not_mined"
				};
				run.cov.case(&format!("verify|{}|{}|{}", kind, chain_state, out.ok), true);
				if chain_state == "reorged_away" {
					run.cov.probe("verify_after_reorg");
				}
				let expect_ok = kind == "none" && on_chain;
				if out.ok && !expect_ok {
					v.push(run.viol(
						"verify_rejects",
						&format!("verify_accepted:{}:{}", kind, chain_state),
						format!(
							"wallet {}: verify_payment_proof accepted a proof with mutation '{}' while the kernel is {}",
							w, kind, chain_state
						),
					));
					return v;
				}
				if !out.ok && expect_ok && step.node_fail.is_none() && !run.ex.world.chain.is_down() {
					v.push(run.viol(
						"verify_accepts_honest",
						"honest_proof_rejected",
						format!(
							"wallet {}: the sender's exported proof for a mined transaction was rejected: {:?}",
							w, out.err
						),
					));
					return v;
				}
				if out.ok {
					// flags match who holds the keys (judged when the verifier's active
					// account is the one whose address was used)
					let snap = run.ex.world.snap(w);
					let exp_sender = deal.initiator == w && snap.active == deal.init_acct;
					let exp_recipient = deal.payee == Some(w)
						&& match &run.trace[deal.created_at_step].op {
							Op::InitSend { args, .. } => args.proof_to == Some(w),
							_ => false,
						};
					let got_sender = out.note.contains("sender_mine=true");
					let got_recipient = out.note.contains("recipient_mine=true");
					if deal.initiator == w && snap.active != deal.init_acct {
						run.cov.not_judged("flags_with_other_active_account");
					} else if got_sender != exp_sender {
						v.push(run.viol(
							"flags",
							"sender_flag_wrong",
							format!("wallet {}: sender_mine={} expected {}", w, got_sender, exp_sender),
						));
					} else if exp_recipient && !got_recipient {
						// the requested address belonged to the recipient's active account
						// at request time; it may have switched since
						run.cov.not_judged("recipient_flag_after_account_switch");
					} else if got_recipient && deal.payee != Some(w) {
						v.push(run.viol(
							"flags",
							"recipient_flag_wrong",
							format!("wallet {}: recipient_mine=true but it is not the recipient", w),
						));
					}
				}
			}
			_ => {}
		}
		if run.trace.len() == 18 {
			let s = sample_trace(run, 18);
			run.cov.sample(s);
		}
		v
	}
}
