#!/bin/bash
# verify_seeded.sh <worktree> <seeded-id> <property>
#   1. demo fails with the patch, passes without it (in the scratch worktree)
#   2. baseline suite passes with the patch (demo excluded)
#   3. copy artefacts to /verif/seeded/<id>/
# The check against /repo (apply, ./check, undo) is done separately by run_seeded.sh.
set -u
WT="$1"; ID="$2"; PROP="$3"
export CARGO_TARGET_DIR="$WT/target" CARGO_NET_OFFLINE=true
cd "$WT" || exit 2
DEMO_CMD=$(python3 -c "import json;print(json.load(open('SEEDED/meta.json'))['demo_cmd'])")
LOG=/tmp/verify-$ID.log; : > $LOG
echo "== demo with patch (expect FAIL)" | tee -a $LOG
( eval "$DEMO_CMD" ) >> $LOG 2>&1; R1=$?
echo "exit $R1" | tee -a $LOG
FILES=$(git apply --numstat SEEDED/patch.diff | awk '{print $3}')
git apply -R SEEDED/patch.diff || { echo "cannot reverse patch" | tee -a $LOG; exit 2; }
echo "== demo without patch (expect PASS)" | tee -a $LOG
( eval "$DEMO_CMD" ) >> $LOG 2>&1; R2=$?
echo "exit $R2" | tee -a $LOG
git apply SEEDED/patch.diff || exit 2
echo "== baseline with patch" | tee -a $LOG
cargo nextest run --workspace --no-fail-fast --test-threads 8 --offline > /tmp/verify-$ID-baseline.log 2>&1
SUMMARY=$(grep -E "Summary" /tmp/verify-$ID-baseline.log | tail -1)
FAILS=$(grep -E "^\s+FAIL " /tmp/verify-$ID-baseline.log | awk '{print $NF, $(NF-1)}' | sort -u | tr '\n' ';')
echo "$SUMMARY | failing: $FAILS" | tee -a $LOG
# owner_v3_lifecycle (real sleeps against a real listener) fails when the machine is loaded:
# an existing test that failed in the full run is re-run alone, up to three times
RETRY=""
if echo "$FAILS" | grep -q "owner_v3_lifecycle"; then
  for i in 1 2 3; do
    if cargo nextest run -p grin_wallet --test owner_v3_lifecycle --offline > /tmp/verify-$ID-retry.log 2>&1; then RETRY="owner_v3_lifecycle passed when re-run alone (attempt $i)"; break; fi
    RETRY="owner_v3_lifecycle FAILED alone $i times"
  done
  echo "$RETRY" | tee -a $LOG
fi
mkdir -p /verif/seeded/$ID
cp SEEDED/* /verif/seeded/$ID/ 2>/dev/null
python3 - <<PY
import json
m=json.load(open('/verif/seeded/$ID/meta.json'))
m['verified_by_me']={'demo_exit_with_patch':$R1,'demo_exit_without_patch':$R2,'baseline_summary':"""$SUMMARY""",'baseline_failing_tests':"""$FAILS""",'files':"""$FILES""",'retry':"""$RETRY"""}
m['property']="$PROP"
json.dump(m,open('/verif/seeded/$ID/meta.json','w'),indent=1)
PY
echo "demo_with=$R1 demo_without=$R2"
