//! C10 — encrypted slatepacks are readable only by their recipients and tamper-evident.
//!
//! The negatives are network faults: misdelivery (the message reaches an
//! identity that is not a recipient), eavesdropping (raw bytes inspected), and
//! corruption / tampering in transit (edits of the armored text; edits of the
//! binary payload re-armored with a correct checksum by an active attacker).

use crate::gen::{GenCfg, HistGen};
use crate::ops::{Exec, Op, OpRes, Step, StepOut};
use crate::rng::SimRng;
use crate::run::{sample_trace, Prop, Run, Violation};
use grin_util::ToHex;
use grin_wallet_libwallet::{
	Slate, SlatepackAddress, SlatepackArmor, SlatepackBin, Slatepacker, SlatepackerArgs,
};
use grin_wallet_util::byte_ser;
use serde_json::{json, Value};

pub struct C10 {
	gen: HistGen,
	history_len: usize,
	cases: u64,
}

fn find(hay: &[u8], needle: &[u8]) -> bool {
	if needle.len() < 8 || hay.len() < needle.len() {
		return false;
	}
	hay.windows(needle.len()).any(|w| w == needle)
}

fn same_slate(a: &Slate, b: &Slate) -> bool {
	crate::ops::slate_to_json(a) == crate::ops::slate_to_json(b)
}

/// one character-level edit of the armored text (payload region)
fn edit_text(text: &str, kind: u64, r: &mut SimRng) -> String {
	let mut c: Vec<char> = text.chars().collect();
	let start = text.find('.').map(|i| i + 1).unwrap_or(0);
	let end = text.rfind(". END").unwrap_or(c.len());
	if end <= start + 2 {
		return text.to_owned();
	}
	let i = start + r.idx(end - start - 1);
	const B58: &[u8] = b"123456789ABCDEFGHJKLMNPQRSTUVWXYZabcdefghijkmnopqrstuvwxyz";
	match kind % 4 {
		0 => {
			// changed
			let mut n = B58[r.idx(B58.len())] as char;
			if n == c[i] {
				n = if n == '1' { '2' } else { '1' };
			}
			c[i] = n;
		}
		1 => {
			c.remove(i);
		}
		2 => {
			c.insert(i, B58[r.idx(B58.len())] as char);
		}
		_ => {
			if i + 1 < end {
				c.swap(i, i + 1);
			}
		}
	}
	c.into_iter().collect()
}

impl C10 {
	pub fn new(run: &mut Run) -> C10 {
		let mut cfg = GenCfg::swarm(run);
		cfg.boundary_args = false;
		cfg.n_wallets = 3;
		while cfg.fund_blocks.len() < 3 {
			cfg.fund_blocks.push(1);
		}
		cfg.w_account = 0;
		cfg.extra_accounts = 0;
		cfg.allow_proof = true;
		cfg.w_new_invoice += 3;
		let history_len = 10 + run.rng.below(10) as usize;
		let gen = HistGen::new(cfg, run);
		C10 {
			gen,
			history_len,
			cases: 0,
		}
	}
}

impl Prop for C10 {
	fn id(&self) -> &'static str {
		"C10"
	}

	fn custom(&mut self, ex: &mut Exec, name: &str, a: &Value) -> OpRes {
		if name != "sp_case" {
			return OpRes::Skipped("unknown".into());
		}
		let nw = ex.world.wallets.len();
		let sender = a["sender"].as_u64().unwrap_or(0) as usize;
		if nw == 0 || sender >= nw || ex.msgs.is_empty() || (0..nw).any(|w| !ex.world.is_open(w)) {
			return OpRes::Skipped("unavailable".into());
		}
		let seed = a["seed"].as_u64().unwrap_or(0);
		let mut r = SimRng::new(seed ^ 0xc10);
		let slate = ex.msgs[(a["src"].as_u64().unwrap_or(0) as usize) % ex.msgs.len()].slate.clone();
		let recips: Vec<(usize, u32)> = a["recipients"]
			.as_array()
			.map(|v| {
				v.iter()
					.filter_map(|x| Some((x[0].as_u64()? as usize, x[1].as_u64()? as u32)))
					.filter(|(w, _)| *w < nw)
					.collect()
			})
			.unwrap_or_default();
		let encrypted = !recips.is_empty();
		let n_edits = a["edits"].as_u64().unwrap_or(8);
		let sender_idx = a["sender_idx"].as_u64().unwrap_or(0) as u32;
		let addr_of = |w: usize, i: u32| -> Option<SlatepackAddress> {
			ex.world
				.owner(w)
				.get_slatepack_address(ex.world.mask(w).as_ref(), i)
				.ok()
		};
		let mut addrs = vec![];
		for (w, i) in &recips {
			match addr_of(*w, *i) {
				Some(a) => addrs.push(a),
				None => return OpRes::Skipped("no address".into()),
			}
		}
		let sender_addr = match addr_of(sender, sender_idx) {
			Some(a) => a,
			None => return OpRes::Skipped("no sender address".into()),
		};
		let so = ex.world.owner(sender);
		// the sender address is optional: recipients alone must still mean "encrypted"
		let no_sender = a["no_sender"].as_bool().unwrap_or(false) && encrypted;
		let text = match so.create_slatepack_message(
			ex.world.mask(sender).as_ref(),
			&slate,
			if no_sender { None } else { Some(sender_idx) },
			addrs.clone(),
		) {
			Ok(t) => t,
			Err(e) => return OpRes::Err(format!("HARNESS-ish: cannot create slatepack: {}", e)),
		};
		let mut problems: Vec<(String, String)> = vec![];
		let mut counts = json!({"recipient_reads": 0, "misdeliveries": 0, "edits": 0, "edits_rejected": 0, "edits_same": 0, "payload_edits": 0});
		let decode = |w: usize, idx: Vec<u32>, t: &str| -> Result<Slate, String> {
			ex.world
				.owner(w)
				.slate_from_slatepack_message(ex.world.mask(w).as_ref(), t.to_owned(), idx)
				.map_err(|e| format!("{}", e))
		};
		// (a) every recipient reads the slate and the sender address
		let readers: Vec<(usize, u32)> = if encrypted { recips.clone() } else { vec![((sender + 1) % nw, 0)] };
		for (w, i) in &readers {
			counts["recipient_reads"] = json!(counts["recipient_reads"].as_u64().unwrap() + 1);
			match decode(*w, if encrypted { vec![*i] } else { vec![] }, &text) {
				Ok(s) => {
					if !same_slate(&s, &slate) {
						problems.push(("recipient_decoded_other_slate".into(), format!("recipient {}:{} decoded a different slate", w, i)));
					}
				}
				Err(e) => problems.push(("recipient_cannot_read".into(), format!("recipient {}:{} cannot read: {}", w, i, e))),
			}
			if encrypted {
				// the wallet tries a list of its address indices; the matching one may come
				// anywhere in that list
				let mut list: Vec<u32> = (0..4u32).collect();
				for k in (1..list.len()).rev() {
					let j = r.idx(k + 1);
					list.swap(k, j);
				}
				if r.chance(1, 2) {
					let keep = 2 + r.idx(2);
					let mut l2: Vec<u32> = list.iter().cloned().filter(|x| x != i).take(keep - 1).collect();
					let pos = r.idx(l2.len() + 1);
					l2.insert(pos, *i);
					list = l2;
				}
				counts["recipient_reads"] = json!(counts["recipient_reads"].as_u64().unwrap() + 1);
				match decode(*w, list.clone(), &text) {
					Ok(s) => {
						if !same_slate(&s, &slate) {
							problems.push(("recipient_decoded_other_slate".into(), format!("recipient {}:{} (index list {:?}) decoded a different slate", w, i, list)));
						}
					}
					Err(e) => problems.push((
						"recipient_cannot_read:index_list".into(),
						format!("recipient wallet {} holds the key at index {} but cannot read with index list {:?}: {}", w, i, list, e),
					)),
				}
			}
			if encrypted {
				match ex.world.owner(*w).decode_slatepack_message(ex.world.mask(*w).as_ref(), text.clone(), vec![*i]) {
					Ok(sp) => {
						let want = if no_sender { None } else { Some(sender_addr.pub_key) };
						if sp.sender.as_ref().map(|s| s.pub_key) != want {
							problems.push(("sender_address_wrong".into(), format!("recipient {}:{} sees sender {:?}", w, i, sp.sender.map(|s| format!("{}", s)))));
						}
					}
					Err(e) => problems.push(("recipient_cannot_read".into(), format!("decode_slatepack_message: {}", e))),
				}
			}
		}
		if encrypted {
			// (b) misdelivery: every other identity in the world, and a reader without a key
			for w in 0..nw {
				for i in 0..4u32 {
					if recips.contains(&(w, i)) {
						continue;
					}
					// an identity is a (wallet, derivation index) pair, not an address: if
					// another index of a wallet came out with a recipient's key, that key
					// is exactly the "other key" that must not open the message
					if let Some(a) = addr_of(w, i) {
						if addrs.iter().any(|x| x.pub_key == a.pub_key) {
							problems.push((
								"non_recipient_decoded:identities_share_a_key".into(),
								format!("wallet {} index {} is not a recipient but holds the same slatepack key as one", w, i),
							));
							continue;
						}
					}
					counts["misdeliveries"] = json!(counts["misdeliveries"].as_u64().unwrap() + 1);
					if let Ok(s) = decode(w, vec![i], &text) {
						problems.push((
							"non_recipient_decoded".into(),
							format!("identity wallet {} index {} is not a recipient but decoded the slatepack (same slate: {})", w, i, same_slate(&s, &slate)),
						));
					}
				}
			}
			counts["misdeliveries"] = json!(counts["misdeliveries"].as_u64().unwrap() + 1);
			if decode((sender + 1) % nw, vec![], &text).is_ok() {
				problems.push(("keyless_reader_decoded".into(), "a reader without any key decoded the encrypted slatepack".into()));
			}
			// (c) eavesdropping: the encoded form holds neither the slate nor the sender in clear
			if let Ok(raw) = SlatepackArmor::decode(text.as_bytes()) {
				let plain_packer = Slatepacker::new(SlatepackerArgs { sender: None, recipients: vec![], dec_key: None });
				if let Ok(sp) = plain_packer.create_slatepack(&slate) {
					if find(&raw, &sp.payload) {
						problems.push(("plaintext_slate_in_ciphertext".into(), "binary slate bytes appear in the encrypted slatepack".into()));
					}
				}
				let js = crate::ops::slate_to_json(&slate);
				if find(&raw, js.as_bytes()) || find(text.as_bytes(), js.as_bytes()) {
					problems.push(("plaintext_slate_in_ciphertext".into(), "slate JSON appears in the encrypted slatepack".into()));
				}
				// distinctive parts of the slate: participant keys
				{
					let secp = grin_util::static_secp_instance();
					let secp = secp.lock();
					for p in &slate.participant_data {
						let k = p.public_blind_excess.serialize_vec(&secp, true).to_vec();
						if find(&raw, &k) {
							problems.push(("plaintext_slate_in_ciphertext".into(), "a participant public key of the slate appears in clear".into()));
						}
					}
				}
				let sa = format!("{}", sender_addr);
				if find(&raw, sa.as_bytes()) || find(text.as_bytes(), sa.as_bytes()) || find(&raw, sender_addr.pub_key.as_bytes()) {
					problems.push(("sender_address_in_clear".into(), "the sender's address appears in the encoded message".into()));
				}
				// the JSON rendering of the same slatepack (the file adapter can write it,
				// Display prints it) is an encoded form too
				if !no_sender {
					let jp = Slatepacker::new(SlatepackerArgs {
						sender: Some(sender_addr.clone()),
						recipients: addrs.clone(),
						dec_key: None,
					});
					if let Ok(sp) = jp.create_slatepack(&slate) {
						if let Ok(js) = serde_json::to_string(&sp) {
							if find(js.as_bytes(), sa.as_bytes()) {
								problems.push((
									"sender_address_in_clear:json_form".into(),
									"the JSON form of the encrypted slatepack shows the sender's address".into(),
								));
							}
						}
					}
				}
				// (d2) active tampering with the encrypted payload, checksum recomputed
				if let Ok(spb) = byte_ser::from_bytes::<SlatepackBin>(&raw) {
					for _ in 0..std::cmp::max(1, n_edits / 2) {
						let mut sp = spb.0.clone();
						if sp.payload.is_empty() {
							break;
						}
						let i = r.idx(sp.payload.len());
						sp.payload[i] ^= 1 << r.below(8);
						if let Ok(t2) = SlatepackArmor::encode(&sp) {
							counts["payload_edits"] = json!(counts["payload_edits"].as_u64().unwrap() + 1);
							let (w, idx) = recips[r.idx(recips.len())];
							match decode(w, vec![idx], &t2) {
								Ok(s) => {
									if !same_slate(&s, &slate) {
										problems.push(("tampered_payload_decoded_other_slate".into(), format!("bit {} of the encrypted payload flipped and the recipient decoded a different slate", i)));
									} else {
										problems.push(("tampered_payload_accepted".into(), format!("byte {} of the encrypted payload modified and the message still decoded", i)));
									}
								}
								Err(_) => {}
							}
						}
					}
				}
			} else {
				problems.push(("own_armor_undecodable".into(), "the produced armor does not decode".into()));
			}
		}
		// (d) corruption of the armored text
		for k in 0..n_edits {
			let t2 = edit_text(&text, r.below(4) + k, &mut r);
			if t2 == text {
				continue;
			}
			counts["edits"] = json!(counts["edits"].as_u64().unwrap() + 1);
			let (w, idx) = readers[r.idx(readers.len())];
			match decode(w, if encrypted { vec![idx] } else { vec![] }, &t2) {
				Ok(s) => {
					if same_slate(&s, &slate) {
						counts["edits_same"] = json!(counts["edits_same"].as_u64().unwrap() + 1);
					} else {
						problems.push((
							if encrypted { "corrupted_encrypted_text_decoded_other_slate".into() } else { "corrupted_plain_text_decoded_other_slate".into() },
							format!("an edited armored message decoded to a different slate: edit #{}", k),
						));
					}
				}
				Err(_) => counts["edits_rejected"] = json!(counts["edits_rejected"].as_u64().unwrap() + 1),
			}
		}
		OpRes::Ok {
			new_msg: None,
			note: json!({"encrypted": encrypted, "n_recipients": recips.len(), "counts": counts, "problems": problems}).to_string(),
			validated: None,
			new_wallet: None,
		}
	}

	fn next(&mut self, run: &mut Run) -> Option<Step> {
		if self.gen.in_setup() || run.trace.len() < self.history_len || run.ex.msgs.is_empty() {
			return self.gen.next(run);
		}
		if run.rng.chance(1, 10) {
			return self.gen.next(run);
		}
		let nw = run.ex.world.wallets.len();
		let sender = run.rng.idx(nw);
		let n_rec = if run.rng.chance(1, 5) { 0 } else { 1 + run.rng.below(4) as usize };
		let mut recips: Vec<(usize, u32)> = vec![];
		for _ in 0..n_rec {
			let c = (run.rng.idx(nw), run.rng.below(4) as u32);
			if !recips.contains(&c) {
				recips.push(c);
			}
		}
		Some(Step::new(Op::Custom {
			name: "sp_case".into(),
			args: json!({
				"sender": sender,
				"sender_idx": run.rng.below(3),
				"no_sender": run.rng.chance(1, 4),
				"src": run.rng.below(1000),
				"recipients": recips.iter().map(|(w, i)| json!([w, i])).collect::<Vec<_>>(),
				"edits": if run.thorough { 40 } else { 16 },
				"seed": run.rng.below(1 << 44),
			}),
		}))
	}

	fn after(&mut self, run: &mut Run, step: &Step, out: &StepOut) -> Vec<Violation> {
		let mut v = vec![];
		self.gen.feedback(run, step, out);
		if let Op::Custom { name, .. } = &step.op {
			if name == "sp_case" && out.ok {
				let note: Value = serde_json::from_str(&out.note).unwrap_or(Value::Null);
				self.cases += 1;
				let c = &note["counts"];
				let enc = note["encrypted"].as_bool().unwrap_or(false);
				let n = note["n_recipients"].as_u64().unwrap_or(0);
				for (k, nontrivial) in [("recipient_reads", false), ("misdeliveries", true), ("edits", true), ("payload_edits", true)].iter() {
					for i in 0..c[*k].as_u64().unwrap_or(0) {
						run.cov.case(&format!("{}|{}|{}|{}", k, enc, n, i % 8), *nontrivial);
					}
				}
				run.cov.fault("misdelivery");
				*run.cov.faults.entry("text_edit".into()).or_insert(0) += c["edits"].as_u64().unwrap_or(0);
				*run.cov.faults.entry("payload_tamper".into()).or_insert(0) += c["payload_edits"].as_u64().unwrap_or(0);
				if c["edits_same"].as_u64().unwrap_or(0) > 0 {
					run.cov.not_judged("edit_decoded_to_same_slate");
				}
				if let Some(p) = note["problems"].as_array().and_then(|a| a.first()) {
					v.push(run.viol(
						"slatepack_confidential_and_tamper_evident",
						p[0].as_str().unwrap_or("problem"),
						format!("{} (recipients: {}, encrypted: {})", p[1].as_str().unwrap_or(""), n, enc),
					));
				}
				if self.cases == 3 {
					run.cov.sample(json!({"case": step, "result": note, "history": sample_trace(run, 20)}));
				}
			}
		}
		v
	}
}
