//! Cooperative baton scheduler (C20): tasks are real OS threads, but only the
//! thread holding the baton runs. The baton changes hands only
//!   * in `lock_scope_enter` (before the wallet lock is requested),
//!   * at a node call made outside any lock scope,
//!   * in a virtual sleep,
//!   * at task exit,
//! so a thread is never descheduled while it holds the wallet mutex, the real
//! mutex never blocks, and the seeded choice list alone decides the interleaving.

use crate::hooks::SchedHooks;
use crate::rng::SimRng;
use std::cell::Cell;
use std::sync::{Arc, Condvar, Mutex};
use std::time::Duration;

thread_local! {
	static TASK: Cell<Option<usize>> = Cell::new(None);
}

#[derive(Clone, Debug, Default)]
struct TaskSt {
	started: bool,
	finished: bool,
	depth: u32,
	yields: u32,
}

struct St {
	current: Option<usize>,
	tasks: Vec<TaskSt>,
	rng: SimRng,
	/// recorded choices (task index chosen at each decision)
	choices: Vec<usize>,
	/// explicit schedule to follow (replay); falls back to the rng when exhausted
	follow: Vec<usize>,
	pos: usize,
	/// PCT-style: a priority order that changes at a few random decision points
	priorities: Option<Vec<usize>>,
	change_points: Vec<usize>,
	decisions: usize,
	log: Vec<String>,
	gap_runs: u64,
}

pub struct Sched {
	st: Mutex<St>,
	cv: Condvar,
}

impl Sched {
	pub fn new(n_tasks: usize, seed: u64, follow: Vec<usize>, pct: bool) -> Arc<Sched> {
		let mut rng = SimRng::new(seed ^ 0x5c4ed);
		let priorities = if pct {
			let mut p: Vec<usize> = (0..n_tasks).collect();
			for i in (1..p.len()).rev() {
				let j = rng.idx(i + 1);
				p.swap(i, j);
			}
			Some(p)
		} else {
			None
		};
		let change_points = (0..3).map(|_| rng.below(40) as usize).collect();
		Arc::new(Sched {
			st: Mutex::new(St {
				current: None,
				tasks: vec![TaskSt::default(); n_tasks],
				rng,
				choices: vec![],
				follow,
				pos: 0,
				priorities,
				change_points,
				decisions: 0,
				log: vec![],
				gap_runs: 0,
			}),
			cv: Condvar::new(),
		})
	}

	fn pick(st: &mut St) -> Option<usize> {
		let runnable: Vec<usize> = st
			.tasks
			.iter()
			.enumerate()
			.filter(|(_, t)| !t.finished)
			.map(|(i, _)| i)
			.collect();
		if runnable.is_empty() {
			return None;
		}
		st.decisions += 1;
		let choice = if st.pos < st.follow.len() && runnable.contains(&st.follow[st.pos]) {
			st.follow[st.pos]
		} else if let Some(p) = st.priorities.clone() {
			if st.change_points.contains(&st.decisions) {
				// demote the currently highest runnable task
				let mut p2 = p.clone();
				if let Some(pos) = p2.iter().position(|t| runnable.contains(t)) {
					let t = p2.remove(pos);
					p2.push(t);
				}
				st.priorities = Some(p2);
			}
			let p = st.priorities.clone().unwrap();
			*p.iter().find(|t| runnable.contains(t)).unwrap_or(&runnable[0])
		} else {
			runnable[st.rng.idx(runnable.len())]
		};
		st.pos += 1;
		st.choices.push(choice);
		Some(choice)
	}

	/// called by a task thread before it runs anything
	pub fn task_begin(&self, id: usize) {
		TASK.with(|t| t.set(Some(id)));
		let mut st = self.st.lock().unwrap();
		st.tasks[id].started = true;
		self.cv.notify_all();
		while st.current != Some(id) {
			st = self.cv.wait(st).unwrap();
		}
	}

	/// called by a task thread when its operation has returned
	pub fn task_end(&self, id: usize) {
		let mut st = self.st.lock().unwrap();
		st.tasks[id].finished = true;
		st.log.push(format!("end:{}", id));
		st.current = Self::pick(&mut st);
		TASK.with(|t| t.set(None));
		self.cv.notify_all();
	}

	/// the simulator: wait until every task thread has parked, hand out the baton,
	/// wait for all to finish. Returns false on a (real-time) deadlock timeout.
	pub fn run_all(&self, real_timeout: Duration) -> bool {
		let mut st = self.st.lock().unwrap();
		while st.tasks.iter().any(|t| !t.started) {
			st = self.cv.wait(st).unwrap();
		}
		st.current = Self::pick(&mut st);
		self.cv.notify_all();
		let start = std::time::Instant::now();
		while st.tasks.iter().any(|t| !t.finished) {
			let (g, to) = self.cv.wait_timeout(st, Duration::from_millis(200)).unwrap();
			st = g;
			if to.timed_out() && start.elapsed() > real_timeout {
				return false;
			}
		}
		true
	}

	fn yield_now(&self, what: &str) {
		let id = match TASK.with(|t| t.get()) {
			Some(i) => i,
			None => return,
		};
		let mut st = self.st.lock().unwrap();
		if st.tasks[id].depth > 0 {
			return;
		}
		st.tasks[id].yields += 1;
		st.log.push(format!("{}:{}", what, id));
		let prev = id;
		st.current = Self::pick(&mut st);
		if st.current != Some(prev) {
			st.gap_runs += 1;
		}
		self.cv.notify_all();
		while st.current != Some(id) {
			st = self.cv.wait(st).unwrap();
		}
	}

	pub fn node_call(&self, what: &str) {
		self.yield_now(&format!("node:{}", what));
	}

	pub fn choices(&self) -> Vec<usize> {
		self.st.lock().unwrap().choices.clone()
	}
	pub fn log(&self) -> Vec<String> {
		self.st.lock().unwrap().log.clone()
	}
	pub fn gap_runs(&self) -> u64 {
		self.st.lock().unwrap().gap_runs
	}
	pub fn yields_of(&self, id: usize) -> u32 {
		self.st.lock().unwrap().tasks[id].yields
	}
	pub fn stuck_info(&self) -> String {
		let st = self.st.lock().unwrap();
		format!("current={:?} tasks={:?} log={:?}", st.current, st.tasks, st.log)
	}
}

impl SchedHooks for Sched {
	fn enter(&self) {
		self.yield_now("lock");
		if let Some(id) = TASK.with(|t| t.get()) {
			let mut st = self.st.lock().unwrap();
			st.tasks[id].depth += 1;
		}
	}
	fn exit(&self) {
		if let Some(id) = TASK.with(|t| t.get()) {
			let mut st = self.st.lock().unwrap();
			if st.tasks[id].depth > 0 {
				st.tasks[id].depth -= 1;
			}
		}
	}
	fn sleep(&self, d: Duration) {
		crate::hooks::advance_ms(d.as_millis() as i64);
		self.yield_now("sleep");
	}
}
