//! C05 — cancelling an unconfirmed transaction is an exact rollback.
//!
//! The oracle is derived from the trace alone (so it survives minimisation):
//! for every wallet it keeps a *base* = snapshot taken right after its last
//! successful refresh, invalidated as soon as the chain moves or the wallet is
//! touched by anything but one transaction T. When T is then cancelled, the
//! wallet must be back at the base (status/value of every output, every balance
//! figure), T's entry must be cancelled and every other entry untouched.

use crate::gen::{GenCfg, HistGen};
use crate::model::DealKind;
use crate::ops::{Op, Step, StepOut};
use crate::run::{sample_trace, Prop, Run, Violation};
use crate::world::Snap;
use grin_util::ToHex;
use grin_wallet_libwallet::{OutputStatus, TxLogEntryType, WalletInfo};
use std::collections::{BTreeMap, BTreeSet};
use uuid::Uuid;

struct Base {
	snap: Snap,
	infos: BTreeMap<String, WalletInfo>,
	/// deals that touched the wallet since the base
	dirty: BTreeSet<Uuid>,
}

struct Focus {
	w: usize,
	role: u8,
	stage: u32,
	deal: Option<usize>,
	started: bool,
	steps: u32,
}

pub struct C05 {
	gen: HistGen,
	base: BTreeMap<usize, Base>,
	/// chain unmoved since the wallet's last successful refresh
	fresh: BTreeSet<usize>,
	pre: Option<(usize, Snap)>,
	focus: Option<Focus>,
	/// wallets that reserved an output while it was still Unconfirmed (minimum
	/// confirmations 0): the next refresh marks it Spent (known finding
	/// rollback_outputs:unconfirmed_input_lost, same root)
	spent_unconfirmed: BTreeSet<usize>,
	/// scripted: a send without change is mined and cancelled before any refresh
	exact: Option<Exact>,
	exacts_left: u32,
	scanned_since_taint: BTreeSet<usize>,
}

struct Exact {
	a: usize,
	b: usize,
	stage: u32,
	d: Option<Uuid>,
}

fn out_lines(s: &Snap) -> Vec<String> {
	let mut v: Vec<String> = s
		.outputs
		.iter()
		.map(|o| {
			format!(
				"{}|{}|{:?}|{}|{}|{}",
				s.acct_label(&o.root_key_id),
				o.key_id.to_hex(),
				o.mmr_index,
				o.value,
				o.status,
				o.is_coinbase
			)
		})
		.collect();
	v.sort();
	v
}

fn infos(run: &Run, w: usize, s: &Snap) -> BTreeMap<String, WalletInfo> {
	let mut m = BTreeMap::new();
	for a in &s.accts {
		if let Some(i) = run.ex.world.info(w, &a.path, 1) {
			m.insert(a.label.clone(), i);
		}
	}
	m
}

impl C05 {
	pub fn new(run: &mut Run) -> C05 {
		let mut cfg = GenCfg::swarm(run);
		cfg.w_cancel = 0; // cancels come from the focus script
		cfg.w_refresh += 4;
		cfg.max_inflight = 1 + run.rng.below(4) as usize;
		cfg.boundary_args = false;
		cfg.allow_ttl = false;
		let gen = HistGen::new(cfg, run);
		C05 {
			gen,
			base: BTreeMap::new(),
			fresh: BTreeSet::new(),
			pre: None,
			focus: None,
			spent_unconfirmed: BTreeSet::new(),
			exact: None,
			scanned_since_taint: BTreeSet::new(),
			exacts_left: if run.rng.chance(1, 3) { 1 } else { 0 },
		}
	}

	fn touch(&mut self, w: usize, id: Uuid) {
		if let Some(b) = self.base.get_mut(&w) {
			b.dirty.insert(id);
		}
	}

	fn focus_next(&mut self, run: &mut Run) -> Option<Step> {
		let nw = run.ex.world.wallets.len();
		let (w, role, stage, deal, started, steps) = {
			let f = self.focus.as_ref()?;
			(f.w, f.role, f.stage, f.deal, f.started, f.steps)
		};
		if steps > 12 {
			self.focus = None;
			return None;
		}
		self.focus.as_mut().unwrap().steps += 1;
		if !started {
			self.focus.as_mut().unwrap().started = true;
			let other = if nw > 1 { (w + 1 + run.rng.idx(nw - 1)) % nw } else { w };
			// role 0: w sends; 1: w receives; 2: w issues invoice; 3: w pays invoice
			return Some(match role {
				0 => {
					let mut args = self.gen.send_args(run, w);
					args.src_acct = None;
					Step::new(Op::InitSend { w, args })
				}
				1 => {
					let mut args = self.gen.send_args(run, other);
					args.src_acct = None;
					args.proof_to = None;
					Step::new(Op::InitSend { w: other, args })
				}
				2 => {
					let amount = self.gen.amount(run, other);
					Step::new(Op::IssueInvoice {
						w,
						amount,
						dest: None,
					})
				}
				_ => {
					let amount = self.gen.amount(run, w);
					Step::new(Op::IssueInvoice {
						w: other,
						amount,
						dest: None,
					})
				}
			});
		}
		let d = match deal {
			Some(d) => d,
			None => {
				// the creating step failed
				self.focus = None;
				return None;
			}
		};
		let dl = run.model.deals[d].clone();
		let involved = dl.initiator == w || dl.payer == Some(w) || dl.payee == Some(w);
		let progressed = (dl.replied as u32)
			+ (dl.locked as u32)
			+ (dl.finalized as u32)
			+ (dl.posted as u32);
		if involved && (progressed >= stage || dl.posted) {
			// cancel now, by slate id or by log id
			self.focus = None;
			let snap = run.ex.world.snap(w);
			let by_id = run.rng.chance(1, 2);
			let entry = snap.txs.iter().find(|t| t.tx_slate_id == Some(dl.id));
			return Some(match (by_id, entry) {
				(true, Some(e)) => Step::new(Op::Cancel {
					w,
					m: None,
					id: Some(e.id),
				}),
				_ => Step::new(Op::Cancel {
					w,
					m: Some(dl.m1),
					id: None,
				}),
			});
		}
		// advance T (direct it to w where the role asks for it)
		let st = match (&dl.kind, role, dl.replied) {
			(DealKind::Send, 1, false) => Some(Step::new(Op::Receive {
				w,
				m: dl.m1,
				dest: None,
				enc: crate::ops::Enc::Json,
			})),
			(DealKind::Invoice, 3, false) => {
				let mut args = self.gen.send_args(run, w);
				args.amount = dl.amount;
				args.late_lock = false;
				args.incl_fee = false;
				args.src_acct = None;
				Some(Step::new(Op::PayInvoice { w, m: dl.m1, args }))
			}
			_ => self.gen.advance(run, d),
		};
		match st {
			Some(s) => {
				if let Op::Mine { .. } = s.op {
					self.focus = None;
					return None;
				}
				Some(s)
			}
			None => {
				self.focus = None;
				None
			}
		}
	}

	fn judge_cancel(&mut self, run: &mut Run, w: usize, id: Uuid) -> Vec<Violation> {
		let mut v = vec![];
		let b = match self.base.get(&w) {
			Some(b) => b,
			None => {
				run.cov.not_judged("cancel_without_base");
				return v;
			}
		};
		if !self.fresh.contains(&w) || b.dirty.iter().any(|d| *d != id) {
			run.cov.not_judged("cancel_with_other_activity_since_base");
			return v;
		}
		// a wallet that cancelled a transaction after broadcasting it holds records only
		// a scan brings back to the chain's truth (its ordinary refresh skips them): the
		// "before" state is then not a state a refresh reproduces
		let cancelled_after_post = run.model.deals.iter().any(|d| {
			(d.cancelled_after_post || (!d.cancelled_by.is_empty() && d.posted))
				&& (d.payer == Some(w) || d.payee == Some(w) || d.initiator == w)
				&& d.id != id
		});
		if cancelled_after_post && !self.scanned_since_taint.contains(&w) {
			run.cov.not_judged("wallet_cancelled_a_broadcast_transaction_earlier");
			return v;
		}
		if b.snap.txs.iter().any(|t| t.tx_slate_id == Some(id)) {
			run.cov.not_judged("target_predates_base");
			return v;
		}
		let post = run.ex.world.snap(w);
		if post.txs.iter().filter(|t| t.tx_slate_id == Some(id)).count() > 1 {
			// self-send: the wallet holds a sent and a received entry for the slate;
			// cancelling one of them is not the whole transaction
			run.cov.not_judged("self_send_two_entries");
			return v;
		}
		let n_other_pending = b.snap.txs.iter().filter(|t| crate::world::is_live(t)).count();
		let kind = post
			.txs
			.iter()
			.find(|t| t.tx_slate_id == Some(id))
			.map(|t| format!("{:?}", t.tx_type))
			.unwrap_or_default();
		let stage = run
			.model
			.deal_of(&id)
			.map(|d| {
				let d = &run.model.deals[d];
				format!(
					"{:?}|{}{}{}{}|{}|{}",
					d.kind,
					d.replied as u8,
					d.locked as u8,
					d.finalized as u8,
					d.posted as u8,
					d.late_lock,
					std::cmp::min(d.change.len(), 3)
				)
			})
			.unwrap_or_default();
		run.cov.case(
			&format!("{}|{}|{}|{}", kind, stage, b.dirty.len(), std::cmp::min(n_other_pending, 3)),
			true,
		);
		if n_other_pending > 0 {
			run.cov.probe("cancel_with_other_pending_transactions");
		}
		// outputs: exactly the base's, same status and value
		let a = out_lines(&b.snap);
		let p = out_lines(&post);
		if a != p {
			let added: Vec<&String> = p.iter().filter(|x| !a.contains(x)).collect();
			let removed: Vec<&String> = a.iter().filter(|x| !p.contains(x)).collect();
			// an input that was still Unconfirmed at the base (spent with
			// minimum_confirmations = 0) and did not come back as Unconfirmed
			let unconf_input_lost = removed.iter().any(|l| {
				l.contains("|Unconfirmed|")
					&& added.iter().any(|a| {
						a.split('|').nth(1) == l.split('|').nth(1) && !a.contains("|Unconfirmed|")
					})
			});
			let sig = if unconf_input_lost {
				"rollback_outputs:unconfirmed_input_lost"
			} else if added.iter().any(|l| l.contains("|Locked|")) {
				"rollback_outputs:still_locked"
			} else if !added.is_empty() && removed.is_empty() {
				"rollback_outputs:leftover_output"
			} else {
				"rollback_outputs:differs"
			};
			v.push(run.viol(
				"exact_rollback",
				sig,
				format!(
					"wallet {} after cancelling {}: outputs differ from before the transaction existed: +{:?} -{:?}",
					w, id, added, removed
				),
			));
			return v;
		}
		// balance figures
		let now = infos(run, w, &post);
		for (label, i0) in &b.infos {
			if let Some(i1) = now.get(label) {
				let f0 = (
					i0.total,
					i0.amount_currently_spendable,
					i0.amount_immature,
					i0.amount_locked,
					i0.amount_awaiting_confirmation,
					i0.amount_awaiting_finalization,
					i0.amount_reverted,
				);
				let f1 = (
					i1.total,
					i1.amount_currently_spendable,
					i1.amount_immature,
					i1.amount_locked,
					i1.amount_awaiting_confirmation,
					i1.amount_awaiting_finalization,
					i1.amount_reverted,
				);
				if f0 != f1 {
					v.push(run.viol(
						"exact_rollback",
						"rollback_balances",
						format!(
							"wallet {} acct {}: balances (total, spendable, immature, locked, awaiting conf, awaiting fin, reverted) before {:?} after cancel {:?}",
							w, label, f0, f1
						),
					));
					return v;
				}
			}
		}
		// log: every base entry unchanged, T's entries cancelled
		for t in &b.snap.txs {
			let same = post
				.txs
				.iter()
				.any(|p| crate::world::tx_line(p) == crate::world::tx_line(t));
			if !same {
				v.push(run.viol(
					"exact_rollback",
					"other_entry_changed",
					format!(
						"wallet {}: cancelling {} changed another log entry: {}",
						w,
						id,
						crate::world::tx_line(t)
					),
				));
				return v;
			}
		}
		let mine: Vec<_> = post.txs.iter().filter(|t| t.tx_slate_id == Some(id)).collect();
		let extra = post.txs.len() - mine.len();
		if extra != b.snap.txs.len() {
			v.push(run.viol(
				"exact_rollback",
				"extra_log_entries",
				format!("wallet {}: {} entries besides T after cancel, {} before", w, extra, b.snap.txs.len()),
			));
			return v;
		}
		if !mine.iter().any(|t| {
			t.tx_type == TxLogEntryType::TxSentCancelled
				|| t.tx_type == TxLogEntryType::TxReceivedCancelled
		}) {
			v.push(run.viol(
				"exact_rollback",
				"entry_not_marked_cancelled",
				format!("wallet {}: cancel of {} succeeded but no entry is marked cancelled", w, id),
			));
		}
		v
	}
}

impl C05 {
	fn exact_step(&mut self, run: &mut Run) -> Option<Step> {
		let r = self.exact.as_mut()?;
		let deal = r.d.and_then(|i| run.model.deal_of(&i)).map(|d| run.model.deals[d].clone());
		let op = match r.stage {
			0 => Op::Refresh { w: r.a },
			1 => {
				// spend the smallest spendable output exactly: no change output
				let snap = run.ex.world.snap(r.a);
				let tip = run.ex.world.chain.height();
				let acct = snap.acct_path(&snap.active)?;
				let v = snap
					.outputs
					.iter()
					.filter(|o| {
						o.root_key_id == acct
							&& o.status == OutputStatus::Unspent
							&& o.lock_height <= tip && o.height < tip
					})
					.map(|o| o.value)
					.min()?;
				let fee = grin_core::libtx::tx_fee(1, 1, 1);
				if v <= fee + 1 {
					return None;
				}
				let mut a = crate::ops::SendArgs::simple(v - fee);
				a.min_conf = 1;
				a.max_outputs = 500;
				run.cov.probe("send_without_change_scripted");
				Op::InitSend { w: r.a, args: a }
			}
			2 => Op::Receive { w: r.b, m: deal.as_ref()?.m1, dest: None, enc: crate::ops::Enc::Mem },
			3 => Op::Lock { w: r.a, m: deal.as_ref()?.m1 },
			4 => Op::Finalize { w: r.a, m: deal.as_ref()?.m2?, foreign: false },
			5 => Op::Post { w: r.a, m: deal.as_ref()?.m3? },
			6 => Op::Mine { w: None, n: 1, txs: true },
			7 => {
				// no refresh in between: the wallet still believes the entry outstanding
				if deal.as_ref()?.mined.is_some() {
					run.cov.probe("cancel_of_mined_send_before_any_refresh");
				}
				Op::Cancel { w: r.a, m: Some(deal.as_ref()?.m1), id: None }
			}
			_ => return None,
		};
		r.stage += 1;
		Some(Step::new(op))
	}

}

impl C05 {
	/// "affects no other transaction", the part that needs no base: whatever the answer,
	/// a cancel (and the refresh inside it) works on the active account; records of the
	/// wallet's other accounts are the same before and after
	fn other_accounts_untouched(&self, run: &mut Run, step: &Step, out: &StepOut) -> Vec<Violation> {
		let mut v = vec![];
		if let Op::Cancel { w, .. } = &step.op {
				if let Some((pw, pre)) = &self.pre {
					if pw == w && run.ex.world.is_open(*w) && !out.crashed {
						let post = run.ex.world.snap(*w);
						if let Some(active) = pre.acct_path(&pre.active) {
							let side = |s: &Snap| -> Vec<String> {
								let mut v: Vec<String> = s
									.outputs
									.iter()
									.filter(|o| o.root_key_id != active)
									.map(|o| format!("out|{}|{}|{}|{:?}", o.key_id.to_hex(), o.value, o.status, o.tx_log_entry))
									.chain(s.txs.iter().filter(|t| t.parent_key_id != active).map(|t| {
										format!("tx|{}|{}|{:?}|{}", t.parent_key_id.to_hex(), t.id, t.tx_type, t.confirmed)
									}))
									.collect();
								v.sort();
								v
							};
							let (a, b) = (side(pre), side(&post));
							if !a.is_empty() {
								run.cov.probe("cancel_in_a_wallet_with_records_in_other_accounts");
							}
							if a != b {
								let gone: Vec<&String> = a.iter().filter(|x| !b.contains(x)).collect();
								let new: Vec<&String> = b.iter().filter(|x| !a.contains(x)).collect();
								v.push(run.viol(
									"affects_no_other",
									"cancel_touched_another_account",
									format!(
										"wallet {}: cancel_tx under account {} ({}) changed records of other accounts: -{:?} +{:?}",
										w,
										pre.active,
										if out.ok { "ok".to_owned() } else { out.err.clone().unwrap_or_default() },
										gone,
										new
									),
								));
								return v;
							}
						}
					}
				}
		}
		v
	}
}

impl Prop for C05 {
	fn id(&self) -> &'static str {
		"C05"
	}

	fn next(&mut self, run: &mut Run) -> Option<Step> {
		if self.exact.is_some() {
			match self.exact_step(run) {
				Some(s) => return Some(s),
				None => self.exact = None,
			}
		}
		if !self.gen.in_setup() && self.gen.setup_done && self.focus.is_none() && self.exacts_left > 0 && run.rng.chance(1, 6) {
			let nw = run.ex.world.wallets.len();
			if nw >= 2 && !run.ex.world.chain.is_down() {
				let a = run.rng.idx(nw);
				let b = (a + 1 + run.rng.idx(nw - 1)) % nw;
				if run.ex.world.is_open(a) && run.ex.world.is_open(b) {
					self.exacts_left -= 1;
					self.exact = Some(Exact { a, b, stage: 0, d: None });
					if let Some(s) = self.exact_step(run) {
						return Some(s);
					}
					self.exact = None;
				}
			}
		}
		if !self.gen.in_setup() && self.gen.setup_done {
			if self.focus.is_some() {
				if let Some(s) = self.focus_next(run) {
					return Some(s);
				}
			} else if run.rng.chance(1, 4) {
				let nw = run.ex.world.wallets.len();
				let w = run.rng.idx(nw);
				self.focus = Some(Focus {
					w,
					role: run.rng.below(4) as u8,
					stage: run.rng.below(4) as u32,
					deal: None,
					started: false,
					steps: 0,
				});
				return Some(Step::new(Op::Refresh { w }));
			} else if run.rng.chance(1, 12) {
				// refused cancels: confirmed / coinbase / unknown / already cancelled
				let nw = run.ex.world.wallets.len();
				let w = run.rng.idx(nw);
				let snap = run.ex.world.snap(w);
				let cands: Vec<u32> = snap.txs.iter().map(|t| t.id).collect();
				let id = if cands.is_empty() || run.rng.chance(1, 4) {
					500 + run.rng.below(50) as u32
				} else {
					*run.rng.pick(&cands)
				};
				if !self.fresh.contains(&w) {
					return Some(Step::new(Op::Refresh { w }));
				}
				return Some(Step::new(Op::Cancel {
					w,
					m: None,
					id: Some(id),
				}));
			}
		}
		self.gen.next(run)
	}

	fn before(&mut self, run: &mut Run, step: &Step) {
		self.pre = None;
		if let Some(w) = step.wallet() {
			if w < run.ex.world.wallets.len() && run.ex.world.is_open(w) {
				self.pre = Some((w, run.ex.world.snap(w)));
			}
		}
	}

	fn after(&mut self, run: &mut Run, step: &Step, out: &StepOut) -> Vec<Violation> {
		let mut v = vec![];
		self.gen.feedback(run, step, out);
		v.extend(self.other_accounts_untouched(run, step, out));
		if !v.is_empty() {
			return v;
		}
		if let Some(r) = self.exact.as_mut() {
			if let (Op::InitSend { .. }, Some(m)) = (&step.op, out.new_msg) {
				if r.stage == 2 {
					r.d = Some(run.ex.msgs[m].slate.id);
				}
			}
			if !out.ok && !matches!(step.op, Op::Refresh { .. } | Op::Mine { .. } | Op::Cancel { .. }) {
				self.exact = None;
			}
		}
		if let (Op::Lock { w, .. }, Some((pw, pre))) = (&step.op, &self.pre) {
			if out.ok && pw == w && run.ex.world.is_open(*w) {
				let post = run.ex.world.snap(*w);
				let reserved_unconfirmed = post.outputs.iter().any(|o| {
					o.status == OutputStatus::Locked
						&& pre.outputs.iter().any(|p| {
							p.key_id == o.key_id && p.mmr_index == o.mmr_index && p.status == OutputStatus::Unconfirmed
						})
				});
				if reserved_unconfirmed {
					self.spent_unconfirmed.insert(*w);
				}
			}
		}
		// focus bookkeeping (generation only; harmless in replay)
		if let Some(f) = self.focus.as_mut() {
			if f.started && f.deal.is_none() {
				if let Some(m) = out.new_msg {
					f.deal = run.model.deal_of_msg(run, m);
				}
			}
		}
		let msg_id = |m: usize| -> Option<Uuid> {
			if m < run.ex.msgs.len() {
				Some(run.ex.msgs[m].slate.id)
			} else {
				None
			}
		};
		if out.crashed {
			// crash + re-open: default account again
			if let Some(w) = step.wallet() {
				self.base.remove(&w);
				self.fresh.remove(&w);
			}
		}
		match &step.op {
			Op::Mine { .. } | Op::Fork { .. } => {
				self.base.clear();
				self.fresh.clear();
			}
			Op::Restart { w } => {
				// a re-opened wallet is on its default account again
				self.base.remove(w);
				self.fresh.remove(w);
			}
			Op::NewAccount { w, .. } | Op::SetAccount { w, .. } | Op::Scan { w, .. } => {
				self.base.remove(w);
				// the last refresh was of another account: the refresh embedded in the
				// next call is not a no-op for the account now active
				self.fresh.remove(w);
			}
			Op::Restore { .. } => {
				self.base.clear();
			}
			Op::Refresh { w } => {
				if out.ok && out.validated == Some(true) && run.ex.world.is_open(*w) {
					let snap = run.ex.world.snap(*w);
					let inf = infos(run, *w, &snap);
					self.base.insert(
						*w,
						Base {
							snap,
							infos: inf,
							dirty: BTreeSet::new(),
						},
					);
					self.fresh.insert(*w);
				}
			}
			Op::InitSend { w, .. } | Op::IssueInvoice { w, .. } => {
				match out.new_msg.and_then(|m| msg_id(m)) {
					Some(id) => self.touch(*w, id),
					None => {
						// a failed initiation may still have bumped indices; statuses and
						// values are what is compared, so the base stays
						if out.crashed || out.panic.is_some() {
							self.base.remove(w);
						}
					}
				}
			}
			Op::Receive { w, m, .. }
			| Op::Lock { w, m }
			| Op::Finalize { w, m, .. }
			| Op::PayInvoice { w, m, .. } => {
				if let Some(id) = msg_id(*m) {
					self.touch(*w, id);
				}
			}
			Op::Cancel { w, m, id } => {
				// which entry was addressed?
				let target: Option<(Uuid, bool, TxLogEntryType)> = match (&self.pre, m, id) {
					(Some((_, pre)), Some(m), _) => msg_id(*m).and_then(|sid| {
						let es: Vec<_> = pre
							.txs
							.iter()
							.filter(|t| {
								t.tx_slate_id == Some(sid)
									&& Some(&t.parent_key_id) == pre.acct_path(&pre.active).as_ref()
							})
							.collect();
						if es.len() == 1 {
							Some((sid, es[0].confirmed, es[0].tx_type.clone()))
						} else {
							None
						}
					}),
					(Some((_, pre)), None, Some(i)) => pre
						.txs
						.iter()
						.find(|t| {
							t.id == *i && Some(&t.parent_key_id) == pre.acct_path(&pre.active).as_ref()
						})
						.and_then(|t| {
							Some((
								t.tx_slate_id.unwrap_or_else(Uuid::nil),
								t.confirmed,
								t.tx_type.clone(),
							))
						}),
					_ => None,
				};
				if out.ok {
					match &target {
						None => {
							v.push(run.viol(
								"refusals",
								"cancel_accepted:unknown",
								format!("wallet {}: cancel of a transaction that does not exist in the active account succeeded", w),
							));
						}
						Some((_, confirmed, ty)) => {
							// the transaction was on chain when cancel_tx was called and the node
							// answered: the refresh cancel_tx starts with learns that, so the
							// entry is a confirmed one however stale the wallet was before
							let mined_before = target
								.as_ref()
								.and_then(|(sid, _, _)| run.model.deal_of(sid))
								.map(|d| run.model.deals[d].mined.is_some())
								.unwrap_or(false) && step.node_fail.is_none()
								&& step.fault.is_none()
								&& !run.ex.world.chain.is_down();
							let class = if *confirmed {
								Some("confirmed")
							} else {
								match ty {
									TxLogEntryType::ConfirmedCoinbase => Some("coinbase"),
									TxLogEntryType::TxSentCancelled
									| TxLogEntryType::TxReceivedCancelled => Some("already_cancelled"),
									TxLogEntryType::TxSent | TxLogEntryType::TxReceived if mined_before => {
										Some("confirmed_on_chain_before_the_call")
									}
									_ => None,
								}
							};
							if let Some(c) = class {
								// listed finding (C04 mined_sent_entry_unconfirmed:change_reserved_by_later_tx,
								// the spend-unconfirmed family): a later transaction of this wallet
								// reserved this transaction's still unconfirmed change at 0
								// confirmations and re-tagged it, so the refresh can never confirm
								// the entry although it is mined - and the cancel then goes through
								let change_respent = c == "confirmed_on_chain_before_the_call"
									&& self.spent_unconfirmed.contains(w)
									&& target
										.as_ref()
										.and_then(|(sid, _, _)| run.model.deal_of(sid))
										.map(|d| {
											let mine = &run.model.deals[d];
											run.model.deals.iter().enumerate().any(|(o, other)| {
												o != d
													&& other.payer == Some(*w)
													&& other.inputs.iter().chain(other.reserved.iter()).any(|(k, _)| mine.change.iter().any(|(c, _)| c == k))
											})
										})
										.unwrap_or(false);
								v.push(run.viol(
									"refusals",
									&format!("cancel_accepted:{}{}", c, if change_respent { ":change_reserved_by_later_tx" } else { "" }),
									format!("wallet {}: cancel of a {} transaction succeeded", w, c),
								));
							}
						}
					}
					if v.is_empty() {
						if let Some((sid, _, _)) = target {
							v.extend(self.judge_cancel(run, *w, sid));
							self.touch(*w, sid);
						}
					}
				} else if out.err.is_some() {
					// a refused cancel changes nothing (judged when the embedded refresh
					// is a no-op: chain unmoved since the wallet's last refresh)
					if let Some((pw, pre)) = &self.pre {
						if self.fresh.contains(pw) && run.ex.world.is_open(*pw) {
							let post = run.ex.world.snap(*pw);
							let class = match &target {
								None => "unknown",
								Some((_, true, _)) => "confirmed",
								Some((_, _, TxLogEntryType::ConfirmedCoinbase)) => "coinbase",
								Some((_, _, TxLogEntryType::TxSentCancelled))
								| Some((_, _, TxLogEntryType::TxReceivedCancelled)) => "already_cancelled",
								_ => "other",
							};
							run.cov.case(&format!("refused|{}", class), class != "other");
							let a: Vec<String> = out_lines(pre)
								.into_iter()
								.chain(pre.tx_proj().into_iter())
								.collect();
							let b: Vec<String> = out_lines(&post)
								.into_iter()
								.chain(post.tx_proj().into_iter())
								.collect();
							if a != b {
								// the embedded refresh is not a no-op for a wallet that reserved
								// a still-unconfirmed output: that is the listed finding
								let only_locked_to_spent = b.iter().filter(|x| !a.contains(x)).all(|x| x.contains("|Spent|"))
									&& a.iter().filter(|x| !b.contains(x)).all(|x| x.contains("|Locked|"));
								let sig = if self.spent_unconfirmed.contains(pw) && only_locked_to_spent {
									"rollback_outputs:unconfirmed_input_lost".to_owned()
								} else {
									format!("refused_cancel_changed_state:{}", class)
								};
								v.push(run.viol(
									"refusals",
									&sig,
									format!(
										"wallet {}: refused cancel ({}) changed the wallet: {:?}",
										pw,
										out.err.clone().unwrap_or_default(),
										b.iter().filter(|x| !a.contains(x)).collect::<Vec<_>>()
									),
								));
							}
						} else {
							run.cov.not_judged("refused_cancel_on_stale_wallet");
						}
					}
				}
			}
			_ => {}
		}
		if run.trace.len() == 16 {
			let s = sample_trace(run, 16);
			run.cov.sample(s);
		}
		v
	}
}
