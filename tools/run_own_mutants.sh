#!/bin/bash
# run_own_mutants.sh [tier] [name...] : apply each hand-made change of /verif/seeded/own to
# /repo, run its property's check, undo. Writes seeded/own/RESULTS.txt.
set -u
TIER="${1:-quick}"; shift || true
OUT=/verif/seeded/own/RESULTS.txt
NAMES="$*"
[ -z "$NAMES" ] && NAMES=$(python3 -c "import json;print(' '.join(m['name'] for m in json.load(open('/verif/seeded/own/index.json'))))") && : > $OUT
cd /repo || exit 2
git diff --quiet || { echo "/repo has uncommitted changes"; exit 2; }
for N in $NAMES; do
	PROP=$(python3 -c "import json;print([m['property'] for m in json.load(open('/verif/seeded/own/index.json')) if m['name']=='$N'][0])")
	touch /verif/seeded/.stamp
	git -C /repo apply /verif/seeded/own/$N.diff || { echo "$N $PROP PATCH-DOES-NOT-APPLY" | tee -a $OUT; continue; }
	( cd /verif && ./check $PROP $TIER > /tmp/own-$N.log 2>&1 ); RC=$?
	git -C /repo checkout -- .
	SIGS=$(grep -o "signature=[^ ]*" /tmp/own-$N.log | sort -u | head -4 | tr '\n' ' ')
	if [ "$RC" = "1" ]; then V=CAUGHT; elif [ "$RC" = "0" ]; then V=MISSED; else V="ERROR($RC)"; fi
	echo "$N $PROP $TIER $V $SIGS" | tee -a $OUT
	find /verif/replays -maxdepth 1 -name "$PROP-*.json" -newer /verif/seeded/.stamp -delete 2>/dev/null
done
rm -f /verif/seeded/.stamp
