//! Cooperative baton scheduler (C20): tasks are real OS threads, but only the
//! thread holding the baton runs. The baton changes hands only
//!   * in `lock_scope_enter` (before the wallet lock is requested),
//!   * at a node call made outside any lock scope,
//!   * in a virtual sleep,
//!   * at task exit,
//! so a thread is never descheduled while it holds the wallet mutex, the real
//! mutex never blocks, and the seeded choice list alone decides the interleaving.

use crate::hooks::SchedHooks;
use crate::rng::SimRng;
use std::cell::Cell;
use std::sync::{Arc, Condvar, Mutex};
use std::time::Duration;

thread_local! {
	static TASK: Cell<Option<usize>> = Cell::new(None);
	/// set for a thread the scheduler adopted (one the wallet code spawned itself): its
	/// destructor runs when that thread exits and hands the baton on
	static EXIT_GUARD: std::cell::RefCell<Option<ExitGuard>> = std::cell::RefCell::new(None);
}

struct ExitGuard {
	sched: Arc<Sched>,
	id: usize,
}

impl Drop for ExitGuard {
	fn drop(&mut self) {
		self.sched.task_end(self.id);
	}
}

lazy_static::lazy_static! {
	/// the scheduler in force (needed by a thread that is adopted from inside a hook)
	static ref CURRENT: Mutex<Option<Arc<Sched>>> = Mutex::new(None);
}

pub fn set_current(s: Option<Arc<Sched>>) {
	*CURRENT.lock().unwrap() = s;
}

#[derive(Clone, Debug, Default)]
struct TaskSt {
	started: bool,
	finished: bool,
	depth: u32,
	yields: u32,
	/// not runnable until all of these tasks have finished
	waits_for: Vec<usize>,
	/// not runnable until this task has started (been adopted)
	waits_started: Option<usize>,
}

struct St {
	current: Option<usize>,
	tasks: Vec<TaskSt>,
	rng: SimRng,
	/// recorded choices (task index chosen at each decision)
	choices: Vec<usize>,
	/// explicit schedule to follow (replay); falls back to the rng when exhausted
	follow: Vec<usize>,
	pos: usize,
	/// PCT-style: a priority order that changes at a few random decision points
	priorities: Option<Vec<usize>>,
	change_points: Vec<usize>,
	decisions: usize,
	log: Vec<String>,
	gap_runs: u64,
	/// a task slot reserved for a thread the code under test spawns itself (the
	/// wallet's "wallet-updater" thread); adopted at its first hook call
	adopt_slot: Option<usize>,
}

pub struct Sched {
	st: Mutex<St>,
	cv: Condvar,
}

impl Sched {
	pub fn new(n_tasks: usize, seed: u64, follow: Vec<usize>, pct: bool) -> Arc<Sched> {
		Self::new_with_slot(n_tasks, seed, follow, pct, false)
	}

	/// `adopt`: one more task slot (index `n_tasks`) for the wallet's own updater thread
	pub fn new_with_slot(n_tasks: usize, seed: u64, follow: Vec<usize>, pct: bool, adopt: bool) -> Arc<Sched> {
		let adopt_slot = if adopt { Some(n_tasks) } else { None };
		let n_tasks = if adopt { n_tasks + 1 } else { n_tasks };
		let mut rng = SimRng::new(seed ^ 0x5c4ed);
		let priorities = if pct {
			let mut p: Vec<usize> = (0..n_tasks).collect();
			for i in (1..p.len()).rev() {
				let j = rng.idx(i + 1);
				p.swap(i, j);
			}
			Some(p)
		} else {
			None
		};
		let change_points = (0..3).map(|_| rng.below(40) as usize).collect();
		Arc::new(Sched {
			st: Mutex::new(St {
				current: None,
				tasks: vec![TaskSt::default(); n_tasks],
				rng,
				choices: vec![],
				follow,
				pos: 0,
				priorities,
				change_points,
				decisions: 0,
				log: vec![],
				gap_runs: 0,
				adopt_slot,
			}),
			cv: Condvar::new(),
		})
	}

	fn pick(st: &mut St) -> Option<usize> {
		let runnable: Vec<usize> = st
			.tasks
			.iter()
			.enumerate()
			.filter(|(_, t)| {
				!t.finished
					&& t.started
					&& t.waits_for.iter().all(|&j| st.tasks[j].finished)
					&& t.waits_started.map(|j| st.tasks[j].started).unwrap_or(true)
			})
			.map(|(i, _)| i)
			.collect();
		if runnable.is_empty() {
			return None;
		}
		st.decisions += 1;
		let choice = if st.pos < st.follow.len() && runnable.contains(&st.follow[st.pos]) {
			st.follow[st.pos]
		} else if let Some(p) = st.priorities.clone() {
			if st.change_points.contains(&st.decisions) {
				// demote the currently highest runnable task
				let mut p2 = p.clone();
				if let Some(pos) = p2.iter().position(|t| runnable.contains(t)) {
					let t = p2.remove(pos);
					p2.push(t);
				}
				st.priorities = Some(p2);
			}
			let p = st.priorities.clone().unwrap();
			*p.iter().find(|t| runnable.contains(t)).unwrap_or(&runnable[0])
		} else {
			runnable[st.rng.idx(runnable.len())]
		};
		st.pos += 1;
		st.choices.push(choice);
		Some(choice)
	}

	/// called by a task thread before it runs anything
	pub fn task_begin(&self, id: usize) {
		TASK.with(|t| t.set(Some(id)));
		let mut st = self.st.lock().unwrap();
		st.tasks[id].started = true;
		self.cv.notify_all();
		while st.current != Some(id) {
			st = self.cv.wait(st).unwrap();
		}
	}

	/// called by a task thread when its operation has returned
	pub fn task_end(&self, id: usize) {
		let mut st = self.st.lock().unwrap();
		st.tasks[id].finished = true;
		st.log.push(format!("end:{}", id));
		st.current = Self::pick(&mut st);
		let _ = TASK.try_with(|t| t.set(None));
		self.cv.notify_all();
	}

	/// the calling task is not runnable until the given tasks have finished; yields
	pub fn wait_finished(&self, others: &[usize]) {
		let id = match TASK.with(|t| t.get()) {
			Some(i) => i,
			None => return,
		};
		{
			let mut st = self.st.lock().unwrap();
			st.tasks[id].waits_for = others.to_vec();
		}
		self.yield_now("wait");
		let mut st = self.st.lock().unwrap();
		st.tasks[id].waits_for.clear();
	}

	/// the calling task (which holds the baton) waits in real time until the reserved
	/// slot has been adopted; nothing else runs meanwhile, so this is not a decision
	pub fn wait_adopted(&self, real_timeout: Duration) -> bool {
		let mut st = self.st.lock().unwrap();
		let slot = match st.adopt_slot {
			Some(s) => s,
			None => return false,
		};
		let start = std::time::Instant::now();
		while !st.tasks[slot].started {
			let (g, _) = self.cv.wait_timeout(st, Duration::from_millis(50)).unwrap();
			st = g;
			if start.elapsed() > real_timeout {
				return false;
			}
		}
		true
	}

	/// the reserved slot will never be used (the thread was not started)
	pub fn abandon_slot(&self) {
		let mut st = self.st.lock().unwrap();
		if let Some(slot) = st.adopt_slot {
			if !st.tasks[slot].started {
				st.tasks[slot].started = true;
				st.tasks[slot].finished = true;
			}
		}
	}

	pub fn slot(&self) -> Option<usize> {
		self.st.lock().unwrap().adopt_slot
	}

	pub fn is_finished(&self, id: usize) -> bool {
		self.st.lock().unwrap().tasks[id].finished
	}

	/// a thread without a task id called a hook: adopt it if it is the wallet's
	/// updater thread and a slot is reserved. Returns after the thread got the baton.
	fn try_adopt(&self) -> bool {
		if std::thread::current().name() != Some("wallet-updater") {
			return false;
		}
		let me = match CURRENT.lock().unwrap().clone() {
			Some(m) => m,
			None => return false,
		};
		let mut st = self.st.lock().unwrap();
		let slot = match st.adopt_slot {
			Some(s) if !st.tasks[s].started => s,
			_ => return false,
		};
		TASK.with(|t| t.set(Some(slot)));
		EXIT_GUARD.with(|g| *g.borrow_mut() = Some(ExitGuard { sched: me, id: slot }));
		crate::entropy::set_thread_ordinal(900 + slot as u64);
		grin_core::global::set_local_chain_type(grin_core::global::ChainTypes::AutomatedTesting);
		st.tasks[slot].started = true;
		st.log.push(format!("adopt:{}", slot));
		self.cv.notify_all();
		while st.current != Some(slot) {
			st = self.cv.wait(st).unwrap();
		}
		true
	}

	/// the simulator: wait until every task thread has parked, hand out the baton,
	/// wait for all to finish. Returns false on a (real-time) deadlock timeout.
	pub fn run_all(&self, real_timeout: Duration) -> bool {
		let mut st = self.st.lock().unwrap();
		let slot = st.adopt_slot;
		while st.tasks.iter().enumerate().any(|(i, t)| !t.started && Some(i) != slot) {
			st = self.cv.wait(st).unwrap();
		}
		st.current = Self::pick(&mut st);
		self.cv.notify_all();
		let start = std::time::Instant::now();
		while st.tasks.iter().any(|t| !t.finished) {
			let (g, to) = self.cv.wait_timeout(st, Duration::from_millis(200)).unwrap();
			st = g;
			if to.timed_out() && start.elapsed() > real_timeout {
				return false;
			}
			if st.current.is_none() && st.tasks.iter().any(|t| !t.finished) {
				// nobody can run although tasks are unfinished
				return false;
			}
		}
		true
	}

	fn yield_now(&self, what: &str) {
		let id = match TASK.with(|t| t.get()) {
			Some(i) => i,
			None => {
				// the adopted thread starts with the baton in hand: its first lock
				// section follows at once (the hand-over itself was the decision)
				self.try_adopt();
				return;
			}
		};
		let mut st = self.st.lock().unwrap();
		if st.tasks[id].depth > 0 {
			return;
		}
		st.tasks[id].yields += 1;
		st.log.push(format!("{}:{}", what, id));
		let prev = id;
		st.current = Self::pick(&mut st);
		if st.current != Some(prev) {
			st.gap_runs += 1;
		}
		self.cv.notify_all();
		while st.current != Some(id) {
			st = self.cv.wait(st).unwrap();
		}
	}

	pub fn node_call(&self, what: &str) {
		self.yield_now(&format!("node:{}", what));
	}

	pub fn choices(&self) -> Vec<usize> {
		self.st.lock().unwrap().choices.clone()
	}
	pub fn log(&self) -> Vec<String> {
		self.st.lock().unwrap().log.clone()
	}
	pub fn gap_runs(&self) -> u64 {
		self.st.lock().unwrap().gap_runs
	}
	pub fn yields_of(&self, id: usize) -> u32 {
		self.st.lock().unwrap().tasks[id].yields
	}
	pub fn stuck_info(&self) -> String {
		let st = self.st.lock().unwrap();
		format!("current={:?} tasks={:?} log={:?}", st.current, st.tasks, st.log)
	}
}

impl SchedHooks for Sched {
	fn enter(&self) {
		self.yield_now("lock");
		if let Some(id) = TASK.with(|t| t.get()) {
			let mut st = self.st.lock().unwrap();
			st.tasks[id].depth += 1;
		}
	}
	fn exit(&self) {
		if let Some(id) = TASK.with(|t| t.get()) {
			let mut st = self.st.lock().unwrap();
			if st.tasks[id].depth > 0 {
				st.tasks[id].depth -= 1;
			}
		}
	}
	fn sleep(&self, d: Duration) {
		if TASK.with(|t| t.get()).is_none() {
			self.try_adopt();
		}
		crate::hooks::advance_ms(d.as_millis() as i64);
		if let Some(id) = TASK.with(|t| t.get()) {
			// a task that goes to sleep lets the others run: under fixed priorities it
			// moves to a seeded lower position (otherwise a sleeping loop on top of the
			// order would starve everybody else)
			let mut st = self.st.lock().unwrap();
			if let Some(mut p) = st.priorities.clone() {
				if let Some(pos) = p.iter().position(|t| *t == id) {
					p.remove(pos);
					let at = 1 + st.rng.idx(p.len().max(1));
					let at = at.min(p.len());
					p.insert(at, id);
					st.priorities = Some(p);
				}
			}
		}
		self.yield_now("sleep");
	}
}
