//! DealBook: the simulator's own record of every exchange the run started,
//! driven only by observed results of real calls.

use crate::ops::{Op, Step, StepOut};
use crate::run::Run;
use grin_core::core::Transaction;
use grin_util::secp::pedersen;
use grin_util::ToHex;
use grin_wallet_libwallet::{SlateState, TxLogEntryType};
use uuid::Uuid;

#[derive(Clone, Debug, PartialEq)]
pub enum DealKind {
	Send,
	Invoice,
}

#[derive(Clone, Debug)]
pub struct Deal {
	pub kind: DealKind,
	pub id: Uuid,
	/// wallet that created the slate
	pub initiator: usize,
	pub init_acct: String,
	/// wallet that pays (Send: initiator; Invoice: whoever processed it)
	pub payer: Option<usize>,
	pub payer_acct: Option<String>,
	/// wallet that is paid
	pub payee: Option<usize>,
	pub payee_acct: Option<String>,
	pub amount: u64,
	pub incl_fee: bool,
	pub fee: Option<u64>,
	pub ttl_cutoff: u64,
	pub late_lock: bool,
	pub proof: bool,
	/// reserved inputs / change (key id hex, value), read from the private context
	pub inputs: Vec<(String, u64)>,
	pub change: Vec<(String, u64)>,
	/// the inputs as they were when the reservation step succeeded (a later repeat
	/// of the pay step may rewrite the context without reserving anything)
	pub reserved: Vec<(String, u64)>,
	pub m1: usize,
	pub m2: Option<usize>,
	pub m3: Option<usize>,
	pub locked: bool,
	pub replied: bool,
	pub finalized: bool,
	pub tx: Option<Transaction>,
	pub posted: bool,
	pub mined: Option<u64>,
	pub ever_mined: bool,
	pub cancelled_by: Vec<usize>,
	pub cancelled_after_post: bool,
	pub created_at_step: usize,
	pub receive_count: u32,
	pub lock_count: u32,
	pub finalize_count: u32,
}

impl Deal {
	pub fn excess(&self) -> Option<pedersen::Commitment> {
		self.tx.as_ref().map(|t| t.kernels()[0].excess)
	}
	pub fn live_for(&self, w: usize) -> bool {
		!self.cancelled_by.contains(&w) && self.mined.is_none()
	}
}

#[derive(Clone, Debug, Default)]
pub struct Model {
	pub deals: Vec<Deal>,
}

impl Model {
	pub fn deal_of(&self, id: &Uuid) -> Option<usize> {
		self.deals.iter().position(|d| d.id == *id)
	}
	pub fn deal_of_msg(&self, run: &Run, m: usize) -> Option<usize> {
		if m >= run.ex.msgs.len() {
			return None;
		}
		self.deal_of(&run.ex.msgs[m].slate.id)
	}

	fn read_ctx(&mut self, run: &Run, d: usize, w: usize) {
		let id = self.deals[d].id;
		if let Some(ctx) = run.ex.world.get_context(w, id.as_bytes()) {
			let deal = &mut self.deals[d];
			deal.inputs = ctx
				.input_ids
				.iter()
				.map(|(k, _, v)| (k.to_hex(), *v))
				.collect();
			deal.change = ctx
				.output_ids
				.iter()
				.map(|(k, _, v)| (k.to_hex(), *v))
				.collect();
			if let Some(f) = ctx.fee {
				deal.fee = Some(f.fee());
			}
		}
	}

	pub fn observe(&mut self, run: &Run, step: &Step, out: &StepOut) {
		let stepno = run.trace.len().saturating_sub(1);
		match &step.op {
			Op::InitSend { w, args } if out.ok && out.new_msg.is_some() => {
				let m = out.new_msg.unwrap();
				let s = &run.ex.msgs[m].slate;
				let snap = run.ex.world.snap(*w);
				let acct = args.src_acct.clone().unwrap_or(snap.active.clone());
				self.deals.push(Deal {
					kind: DealKind::Send,
					id: s.id,
					initiator: *w,
					init_acct: acct.clone(),
					payer: Some(*w),
					payer_acct: Some(acct),
					payee: None,
					payee_acct: None,
					amount: s.amount,
					incl_fee: args.incl_fee,
					fee: Some(s.fee_fields.fee()),
					ttl_cutoff: s.ttl_cutoff_height,
					late_lock: args.late_lock,
					proof: s.payment_proof.is_some(),
					inputs: vec![],
					change: vec![],
					reserved: vec![],
					m1: m,
					m2: None,
					m3: None,
					locked: false,
					replied: false,
					finalized: false,
					tx: None,
					posted: false,
					mined: None,
					ever_mined: false,
					cancelled_by: vec![],
					cancelled_after_post: false,
					created_at_step: stepno,
					receive_count: 0,
					lock_count: 0,
					finalize_count: 0,
				});
				let d = self.deals.len() - 1;
				self.read_ctx(run, d, *w);
			}
			Op::IssueInvoice { w, amount, dest } if out.ok && out.new_msg.is_some() => {
				let m = out.new_msg.unwrap();
				let s = &run.ex.msgs[m].slate;
				let snap = run.ex.world.snap(*w);
				let acct = dest.clone().unwrap_or(snap.active.clone());
				self.deals.push(Deal {
					kind: DealKind::Invoice,
					id: s.id,
					initiator: *w,
					init_acct: acct.clone(),
					payer: None,
					payer_acct: None,
					payee: Some(*w),
					payee_acct: Some(acct),
					amount: *amount,
					incl_fee: false,
					fee: None,
					ttl_cutoff: s.ttl_cutoff_height,
					late_lock: false,
					proof: false,
					inputs: vec![],
					change: vec![],
					reserved: vec![],
					m1: m,
					m2: None,
					m3: None,
					locked: false,
					replied: false,
					finalized: false,
					tx: None,
					posted: false,
					mined: None,
					ever_mined: false,
					cancelled_by: vec![],
					cancelled_after_post: false,
					created_at_step: stepno,
					receive_count: 0,
					lock_count: 0,
					finalize_count: 0,
				});
			}
			Op::Receive { w, m, dest, .. } if out.ok => {
				if let Some(d) = self.deal_of_msg(run, *m) {
					let snap = run.ex.world.snap(*w);
					let deal = &mut self.deals[d];
					deal.receive_count += 1;
					if run.ex.msgs[*m].mutated.is_none() && !deal.replied {
						deal.replied = true;
						deal.payee = Some(*w);
						deal.payee_acct = Some(dest.clone().unwrap_or(snap.active));
						deal.m2 = out.new_msg;
					}
				}
			}
			Op::PayInvoice { w, m, args } if out.ok => {
				// an invoice already being paid by another wallet: the second payer's
				// attempt is a separate exchange the DealBook does not follow
				let other_payer = self
					.deal_of_msg(run, *m)
					.map(|d| self.deals[d].payer.map(|p| p != *w).unwrap_or(false))
					.unwrap_or(false);
				if let (Some(d), false) = (self.deal_of_msg(run, *m), other_payer) {
					let snap = run.ex.world.snap(*w);
					{
						let deal = &mut self.deals[d];
						deal.replied = true;
						deal.payer = Some(*w);
						deal.payer_acct = Some(args.src_acct.clone().unwrap_or(snap.active));
						deal.m2 = out.new_msg;
						if let Some(nm) = out.new_msg {
							let s = &run.ex.msgs[nm].slate;
							deal.fee = Some(s.fee_fields.fee());
							deal.ttl_cutoff = s.ttl_cutoff_height;
						}
					}
					self.read_ctx(run, d, *w);
				}
			}
			Op::Lock { w, m } if out.ok => {
				if let Some(d) = self.deal_of_msg(run, *m) {
					self.deals[d].lock_count += 1;
					if self.deals[d].payer == Some(*w) {
						let first = !self.deals[d].locked;
						self.deals[d].locked = true;
						if first {
							let id = self.deals[d].id;
							if let Some(ctx) = run.ex.world.get_context(*w, id.as_bytes()) {
								self.deals[d].reserved =
									ctx.input_ids.iter().map(|(k, _, v)| (k.to_hex(), *v)).collect();
							}
						}
					}
				}
			}
			Op::Finalize { w, m, .. } if out.ok => {
				if let Some(d) = self.deal_of_msg(run, *m) {
					// late lock: inputs chosen now; context is deleted by finalize, so read
					// them from the finalized transaction instead (C02 does)
					let deal = &mut self.deals[d];
					deal.finalize_count += 1;
					deal.finalized = true;
					deal.m3 = out.new_msg;
					if let Some(nm) = out.new_msg {
						deal.tx = run.ex.msgs[nm].slate.tx.clone();
					}
					if deal.late_lock && deal.payer == Some(*w) {
						deal.locked = true;
					}
				}
			}
			Op::Post { m, .. } => {
				// the node may have accepted it even if the reply was lost
				if let Some(d) = self.deal_of_msg(run, *m) {
					if let Some(ex) = self.deals[d].excess() {
						let in_pool = run
							.ex
							.world
							.chain
							.node
							.sh
							.mempool
							.lock()
							.unwrap()
							.iter()
							.any(|t| t.kernels()[0].excess == ex);
						if in_pool || out.ok {
							let deal = &mut self.deals[d];
							deal.posted = true;
							if !deal.cancelled_by.is_empty() {
								deal.cancelled_after_post = true;
							}
						}
					}
				}
			}
			_ => {}
		}
		// chain-derived and log-derived facts, recomputed after every step
		let nw = run.ex.world.wallets.len();
		let mut snaps = vec![];
		for w in 0..nw {
			if run.ex.world.is_open(w) {
				snaps.push(Some(run.ex.world.snap(w)));
			} else {
				snaps.push(None);
			}
		}
		for deal in self.deals.iter_mut() {
			if let Some(ex) = deal.excess() {
				deal.mined = run.ex.world.chain.kernel_height(&ex);
				if deal.mined.is_some() {
					deal.ever_mined = true;
				}
			}
			for (w, s) in snaps.iter().enumerate() {
				if let Some(s) = s {
					let cancelled = s.txs.iter().any(|t| {
						t.tx_slate_id == Some(deal.id)
							&& (t.tx_type == TxLogEntryType::TxSentCancelled
								|| t.tx_type == TxLogEntryType::TxReceivedCancelled)
					});
					if cancelled && !deal.cancelled_by.contains(&w) {
						deal.cancelled_by.push(w);
						if deal.posted {
							deal.cancelled_after_post = true;
						}
					}
				}
			}
		}
	}
}

pub fn slate_stage(s: &SlateState) -> u8 {
	match s {
		SlateState::Standard1 | SlateState::Invoice1 => 1,
		SlateState::Standard2 | SlateState::Invoice2 => 2,
		SlateState::Standard3 | SlateState::Invoice3 => 3,
		SlateState::Unknown => 0,
	}
}
