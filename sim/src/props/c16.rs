//! C16 — scanning restores and repairs the wallet to the chain's truth, idempotently.

use crate::gen::{GenCfg, HistGen};
use crate::ops::{Exec, Op, OpRes, Step, StepOut};
use crate::run::{sample_trace, Prop, Run, Violation};
use crate::world::Snap;
use grin_core::global;
use grin_keychain::Keychain;
use grin_util::ToHex;
use grin_wallet_libwallet::{OutputData, OutputStatus};
use serde_json::{json, Value};
use std::collections::{BTreeMap, BTreeSet};

pub struct C16 {
	gen: HistGen,
	restored: BTreeSet<usize>,
	retired: BTreeSet<usize>,
	queue: Vec<Step>,
	/// snapshot after the previous scan of a wallet (for idempotence), with the
	/// number of steps executed then
	after_scan: BTreeMap<usize, (Vec<String>, usize, u64)>,
	divergences: BTreeMap<usize, Vec<String>>,
	injected_locked: BTreeSet<(usize, String)>,
	batch: u64,
}

fn scan_proj(s: &Snap) -> Vec<String> {
	s.full_proj()
}

impl C16 {
	pub fn new(run: &mut Run) -> C16 {
		let mut cfg = GenCfg::swarm(run);
		cfg.boundary_args = false;
		cfg.extra_accounts = run.rng.below(3) as usize;
		cfg.allow_multi_acct_args = true;
		cfg.w_mine += 6;
		cfg.w_account = 1 + run.rng.below(3) as u32;
		cfg.w_fork = run.rng.below(3) as u32;
		cfg.allow_cancel_after_post = run.rng.chance(1, 2);
		cfg.w_cancel = run.rng.below(4) as u32;
		cfg.w_scan = 0;
		// swarm: some runs spread funds over several accounts of one seed
		if run.rng.chance(1, 3) {
			cfg.extra_accounts = 2 + run.rng.below(2) as usize;
			cfg.w_account += 8;
			cfg.w_mine += 6;
		}
		for f in cfg.fund_blocks.iter_mut() {
			*f += run.rng.below(5) as u32;
		}
		// tuning knob: the PMMR batch loop crosses batch boundaries
		let batch = *run.rng.pick(&[1u64, 2, 3, 5, 8, 1000]);
		run.set_knob("scan.batch_size", batch);
		let gen = HistGen::new(cfg, run);
		C16 {
			gen,
			restored: BTreeSet::new(),
			retired: BTreeSet::new(),
			queue: vec![],
			after_scan: BTreeMap::new(),
			divergences: BTreeMap::new(),
			injected_locked: BTreeSet::new(),
			batch,
		}
	}

	fn judge_scan(&mut self, run: &mut Run, w: usize, start: Option<u64>, del: bool, second: bool) -> Vec<Violation> {
		let mut v = vec![];
		let snap = run.ex.world.snap(w);
		let truth = run.ex.world.truth(w);
		let start_h = start.unwrap_or(1);
		let restored = self.restored.contains(&w);
		let divs = self.divergences.remove(&w).unwrap_or_default();
		let n_utxo = run.ex.world.chain.utxos().len() as u64;
		let crossed = self.batch < n_utxo;
		run.cov.case(
			&format!(
				"{}|{}|{}|{:?}|{}",
				if restored { "restore" } else { "repair" },
				del,
				start.is_some(),
				divs,
				crossed
			),
			!divs.is_empty() || (restored && !truth.is_empty()) || crossed,
		);
		if crossed {
			run.cov.probe("scan_crossed_batch_boundary");
		}
		let maturity = global::coinbase_maturity();
		let active = snap.acct_path(&snap.active);
		// every output of this seed in the UTXO set (from the start height on) is recorded
		for t in truth.iter().filter(|t| t.height >= start_h || !restored) {
			let rec: Vec<&OutputData> = snap
				.outputs
				.iter()
				.filter(|o| run.ex.world.commit_of(w, o) == t.commit)
				.collect();
			let good = rec.iter().find(|o| {
				o.status == OutputStatus::Unspent || (o.status == OutputStatus::Locked && !del)
			});
			match good {
				None => {
					if t.height < start_h {
						continue;
					}
					let st: Vec<String> = rec.iter().map(|o| format!("{}", o.status)).collect();
					v.push(run.viol(
						"restores_truth",
						&format!("utxo_not_unspent_after_scan:{}", if st.is_empty() { "absent".to_owned() } else { st.join("+") }),
						format!(
							"wallet {}: after scan(start {:?}, delete_unconfirmed {}) the unspent output {} ({} at height {}) is {:?} in the wallet (injected divergences: {:?})",
							w, start, del, t.commit.as_ref().to_hex(), t.value, t.height, st, divs
						),
					));
					return v;
				}
				Some(o) => {
					let lock = if t.is_coinbase { t.height + maturity } else { t.height };
					let bad = o.value != t.value
						|| o.is_coinbase != t.is_coinbase
						|| o.root_key_id != t.acct
						|| (o.mmr_index.is_some()
							&& (o.height != t.height
								// maturity: exact for a coinbase; a plain output is spendable once
								// confirmed, so its recorded lock height only must not exceed its
								// height (it keeps the first height after being mined again)
								|| (t.is_coinbase && o.lock_height != lock)
								|| (!t.is_coinbase && o.lock_height > lock)));
					if bad {
						v.push(run.viol(
							"restores_truth",
							"restored_record_wrong",
							format!(
								"wallet {}: output {} recorded as value {} height {} lock {} coinbase {} account {}, chain says value {} height {} lock {} coinbase {} account {}",
								w,
								t.commit.as_ref().to_hex(),
								o.value,
								o.height,
								o.lock_height,
								o.is_coinbase,
								o.root_key_id.to_bip_32_string(),
								t.value,
								t.height,
								lock,
								t.is_coinbase,
								t.acct.to_bip_32_string()
							),
						));
						return v;
					}
				}
			}
		}
		// nothing outside the truth is recorded unspent (active account: the one a
		// scan refreshes)
		for o in &snap.outputs {
			if o.status == OutputStatus::Unspent && Some(&o.root_key_id) == active.as_ref() {
				let c = run.ex.world.commit_of(w, o);
				if !truth.iter().any(|t| t.commit == c) {
					v.push(run.viol(
						"repairs_to_truth",
						"unspent_record_not_in_utxo",
						format!(
							"wallet {}: after scan, output {} ({}) is recorded Unspent but is not in the node's unspent set",
							w,
							c.as_ref().to_hex(),
							o.value
						),
					));
					return v;
				}
			}
		}
		// a scan never leaves an output reserved for a transaction it has cancelled
		for o in &snap.outputs {
			if o.status == OutputStatus::Locked {
				let live = snap.txs.iter().any(|t| {
					Some(t.id) == o.tx_log_entry
						&& t.parent_key_id == o.root_key_id
						&& t.tx_type == grin_wallet_libwallet::TxLogEntryType::TxSent
						&& !t.confirmed
				});
				let injected = self.injected_locked.contains(&(w, o.key_id.to_hex()));
				if !live && !injected {
					let sig = if start.is_some() && del {
						// known finding; the output stays locked from here on (derived
						// damage is not reported again)
						for o2 in &snap.outputs {
							if o2.status == OutputStatus::Locked {
								let live2 = snap.txs.iter().any(|t| {
									Some(t.id) == o2.tx_log_entry
										&& t.parent_key_id == o2.root_key_id
										&& t.tx_type == grin_wallet_libwallet::TxLogEntryType::TxSent
										&& !t.confirmed
								});
								if !live2 {
									self.injected_locked.insert((w, o2.key_id.to_hex()));
								}
							}
						}
						"locked_output_of_cancelled_entry_after_partial_scan"
					} else {
						"locked_output_without_live_entry_after_scan"
					};
					v.push(run.viol(
						"repairs_to_truth",
						sig,
						format!(
							"wallet {}: after scan(start {:?}, delete_unconfirmed {}) output {} is Locked but its log entry {:?} is not a live sent transaction",
							w, start, del, o.key_id.to_hex(), o.tx_log_entry
						),
					));
					return v;
				}
			}
		}
		if del {
			for o in &snap.outputs {
				let on_chain = {
					let c = run.ex.world.commit_of(w, o);
					truth.iter().any(|t| t.commit == c)
				};
				if o.status == OutputStatus::Unconfirmed && !o.is_coinbase && !on_chain {
					v.push(run.viol(
						"drops_pending",
						"unconfirmed_left_after_scan_delete",
						format!("wallet {}: scan with delete_unconfirmed left unconfirmed output {}", w, o.key_id.to_hex()),
					));
					return v;
				}
			}
		}
		// restored wallet: every account that holds an unspent output exists again
		if restored && start.is_none() {
			let have: BTreeSet<String> = snap.accts.iter().map(|a| a.path.to_hex()).collect();
			let want: BTreeSet<String> = truth.iter().map(|t| t.acct.to_hex()).collect();
			if want.len() > 2 {
				run.cov.probe("restore_of_three_or_more_funded_accounts");
			}
			if let Some(missing) = want.iter().find(|a| !have.contains(*a)) {
				v.push(run.viol(
					"restores_truth",
					"account_missing_after_restore",
					format!(
						"wallet {}: the chain holds unspent outputs of account path {} but the restored wallet has no such account (accounts: {:?})",
						w, missing, have
					),
				));
				return v;
			}
		}
		// restored wallet: same spendable total as the chain's truth implies
		if restored && start.is_none() && second {
			// the user reads totals through a refresh of each account
			let owner = run.ex.world.owner(w);
			let mask = run.ex.world.mask(w);
			let cur = snap.active.clone();
			for a in &snap.accts {
				let _ = owner.set_active_account(mask.as_ref(), &a.label);
				let _ = owner.retrieve_summary_info(mask.as_ref(), true, 1);
			}
			let _ = owner.set_active_account(mask.as_ref(), &cur);
			let tip = run.ex.world.chain.height();
			let mut want: u64 = 0;
			for t in &truth {
				let reserved = snap.outputs.iter().any(|o| {
					o.status == OutputStatus::Locked && run.ex.world.commit_of(w, o) == t.commit
				});
				if !(t.is_coinbase && t.height + maturity > tip) && !reserved {
					want += t.value;
				}
			}
			let mut got: u64 = 0;
			for a in &snap.accts {
				if let Some(i) = run.ex.world.info(w, &a.path, 1) {
					got += i.amount_currently_spendable;
				}
			}
			if got != want {
				v.push(run.viol(
					"restores_truth",
					"restored_spendable_total_differs",
					format!("wallet {}: restored wallet reports spendable {} but the chain holds {} spendable for this seed", w, got, want),
				));
				return v;
			}
			run.cov.probe("restored_wallet_total_checked");
		}
		v
	}
}

impl Prop for C16 {
	fn id(&self) -> &'static str {
		"C16"
	}

	fn custom(&mut self, ex: &mut Exec, name: &str, a: &Value) -> OpRes {
		if name != "corrupt_record" {
			return OpRes::Skipped("unknown".into());
		}
		let w = a["w"].as_u64().unwrap_or(0) as usize;
		if w >= ex.world.wallets.len() || !ex.world.is_open(w) {
			return OpRes::Skipped("unavailable".into());
		}
		let kind = a["kind"].as_str().unwrap_or("").to_owned();
		let pick = a["pick"].as_u64().unwrap_or(0) as usize;
		let mask = ex.world.mask(w);
		let snap = ex.world.snap(w);
		// only confirmed, unreserved outputs that really are on chain are diverged
		let truth: Vec<_> = ex.world.truth(w);
		let cands: Vec<OutputData> = snap
			.outputs
			.iter()
			.filter(|o| o.status == OutputStatus::Unspent)
			.filter(|o| {
				let c = ex.world.commit_of(w, o);
				truth.iter().any(|t| t.commit == c)
			})
			.cloned()
			.collect();
		if cands.is_empty() {
			return OpRes::Skipped("no candidate".into());
		}
		let mut o = cands[pick % cands.len()].clone();
		let r = ex.world.with_backend(w, |b| {
			let mut batch = b.batch(mask.as_ref())?;
			match kind.as_str() {
				"delete" => batch.delete(&o.key_id, &o.mmr_index)?,
				"spent" => {
					o.status = OutputStatus::Spent;
					batch.save(o.clone())?;
				}
				"locked" => {
					o.status = OutputStatus::Locked;
					batch.save(o.clone())?;
				}
				"stale_unconfirmed" => {
					// a record of an output that never reached the chain
					let mut s = o.clone();
					s.key_id = grin_keychain::ExtKeychain::derive_key_id(
						3,
						<u32>::from(o.root_key_id.to_path().path[0]),
						0,
						9000 + (pick as u32 % 50),
						0,
					);
					s.n_child = 9000 + (pick as u32 % 50);
					s.commit = None;
					s.mmr_index = None;
					s.status = OutputStatus::Unconfirmed;
					s.is_coinbase = false;
					s.tx_log_entry = None;
					s.value = 1_234_567;
					batch.save(s)?;
				}
				_ => {}
			}
			batch.commit()?;
			Ok(())
		});
		match r {
			Ok(_) => OpRes::Ok {
				new_msg: None,
				note: format!("{}:{}", kind, o.key_id.to_hex()),
				validated: None,
				new_wallet: None,
			},
			Err(e) => OpRes::Err(format!("{}", e)),
		}
	}

	fn next(&mut self, run: &mut Run) -> Option<Step> {
		if let Some(s) = self.queue.pop() {
			return Some(s);
		}
		if self.gen.setup_done {
			let nw = run.ex.world.wallets.len();
			let live: Vec<usize> = (0..nw).filter(|w| !self.retired.contains(w)).collect();
			if run.rng.chance(1, 6) && !live.is_empty() {
				let w = *run.rng.pick(&live);
				let k = run.rng.below(10);
				if k < 3 && nw < 5 && run.ex.world.chain.height() > 4 && !self.restored.contains(&w) {
					// (a) restore from the mnemonic, scan, scan again
					let new_w = nw;
					let start = if run.rng.chance(3, 4) { None } else { Some(run.rng.range(0, run.ex.world.chain.height())) };
					let del = run.rng.chance(1, 3);
					let mut seq = vec![];
					// sometimes every account of the seed gets an output of its own first
					let labels = self.gen.labels.get(w).cloned().unwrap_or_default();
					if labels.len() >= 2 && run.rng.chance(1, 2) && run.ex.world.is_open(w) {
						for l in &labels {
							seq.push(Step::new(Op::SetAccount { w, label: l.clone() }));
							seq.push(Step::new(Op::Mine { w: Some(w), n: 1, txs: false }));
						}
						seq.push(Step::new(Op::Mine { w: None, n: run.rng.range(1, 4) as u32, txs: true }));
					}
					seq.push(Step::new(Op::Restore { src: w }));
					seq.push(Step::new(Op::Scan { w: new_w, start, del }));
					seq.push(Step::new(Op::Scan { w: new_w, start, del }));
					seq.reverse();
					self.queue = seq;
					return self.queue.pop();
				}
				// (b) stored-state divergence, scan, (c) scan again
				let del = run.rng.chance(1, 2);
				let start = if run.rng.chance(1, 5) { Some(run.rng.range(1, run.ex.world.chain.height().max(1))) } else { None };
				self.queue.push(Step::new(Op::Scan { w, start, del }));
				self.queue.push(Step::new(Op::Scan { w, start, del }));
				let n = 1 + run.rng.below(3);
				for _ in 0..n {
					let kind = *run.rng.pick(&["delete", "spent", "locked", "stale_unconfirmed", "delete", "spent"]);
					self.queue.push(Step::new(Op::Custom {
						name: "corrupt_record".into(),
						args: json!({"w": w, "kind": kind, "pick": run.rng.below(1000)}),
					}));
				}
				// the divergence is injected into a wallet that is up to date
				return Some(Step::new(Op::Refresh { w }));
			}
		}
		for _ in 0..20 {
			let st = self.gen.next(run)?;
			let involves_retired = match &st.op {
				Op::Mine { w: Some(w), .. } => self.retired.contains(w),
				_ => st.wallet().map(|w| self.retired.contains(&w)).unwrap_or(false),
			};
			if !involves_retired {
				return Some(st);
			}
		}
		Some(Step::new(Op::Mine { w: None, n: 1, txs: true }))
	}

	fn after(&mut self, run: &mut Run, step: &Step, out: &StepOut) -> Vec<Violation> {
		let mut v = vec![];
		self.gen.feedback(run, step, out);
		match &step.op {
			Op::Restore { src } => {
				if let Some(nw) = out.new_wallet {
					self.restored.insert(nw);
					self.retired.insert(*src);
					while self.gen.labels.len() <= nw {
						self.gen.labels.push(vec!["default".to_owned()]);
					}
				} else {
					self.queue.clear();
				}
			}
			Op::Custom { name, args } if name == "corrupt_record" => {
				if out.ok {
					let w = args["w"].as_u64().unwrap_or(0) as usize;
					let mut it = out.note.split(':');
					let kind = it.next().unwrap_or("").to_owned();
					let key = it.next().unwrap_or("").to_owned();
					if kind == "locked" {
						self.injected_locked.insert((w, key));
					}
					self.divergences.entry(w).or_default().push(kind);
				}
			}
			Op::Scan { w, start, del } => {
				if !run.ex.world.is_open(*w) {
					return v;
				}
				if !out.ok {
					if out.err.is_some() && step.node_fail.is_none() && !run.ex.world.chain.is_down() {
						v.push(run.viol(
							"scan_completes",
							"scan_failed",
							format!("wallet {}: scan failed with the node reachable: {:?}", w, out.err),
						));
					}
					return v;
				}
				let snap = run.ex.world.snap(*w);
				let proj = scan_proj(&snap);
				let stepno = run.trace.len();
				let chain_blocks = run.ex.world.chain.blocks_mined;
				// (c) a second scan right after the first changes nothing
				let mut second = false;
				if let Some((prev, at, blocks)) = self.after_scan.get(w) {
					if *at + 1 == stepno && *blocks == chain_blocks {
						second = true;
						run.cov.case(&format!("rescan|{}", del), true);
						if *prev != proj {
							let added: Vec<&String> = proj.iter().filter(|x| !prev.contains(x)).collect();
							let removed: Vec<&String> = prev.iter().filter(|x| !proj.contains(x)).collect();
							// only the recorded height of repaired outputs moved?
							let strip = |l: &String| -> String {
								let f: Vec<&str> = l.split('|').collect();
								if f.len() == 9 {
									format!("{}|{}|{}|{}|{}|{}|{}", f[0], f[1], f[2], f[3], f[4], f[7], f[8])
								} else {
									l.clone()
								}
							};
							let a2: Vec<String> = added.iter().map(|l| strip(l)).collect();
							let r2: Vec<String> = removed.iter().map(|l| strip(l)).collect();
							let height_only = !a2.is_empty() && a2.len() == r2.len() && a2.iter().all(|x| r2.contains(x));
							v.push(run.viol(
								"idempotent",
								if height_only { "second_scan_changed_state:height_only" } else { "second_scan_changed_state" },
								format!("wallet {}: a second scan changed the wallet: +{:?} -{:?}", w, added, removed),
							));
							return v;
						}
					}
				}
				self.after_scan.insert(*w, (proj, stepno, chain_blocks));
				v.extend(self.judge_scan(run, *w, *start, *del, second));
			}
			_ => {}
		}
		if run.trace.len() == 24 {
			let s = sample_trace(run, 24);
			run.cov.sample(s);
		}
		v
	}
}
