//! C09 — decoding untrusted input never crashes the wallet.
//!
//! The inputs are what a corrupting channel, a torn file and a Byzantine peer
//! produce: byte-level faults on valid traffic of the run (every encoding), and
//! ciphertexts validly encrypted to the victim whose plaintext is malformed.

use crate::gen::{GenCfg, HistGen};
use crate::ops::{Exec, Op, OpRes, Step, StepOut};
use crate::props::c13::{client_key, envelope, shared_from};
use crate::rng::SimRng;
use crate::rpc::RpcEndpoints;
use crate::run::{sample_trace, Prop, Run, Violation};
use grin_util::secp::key::SecretKey;
use grin_util::{static_secp_instance, ToHex};
use grin_wallet_impls::PathToSlatepack;
use grin_wallet_libwallet::{
	PaymentProof, Slate, Slatepack, SlatepackAddress, SlatepackArmor, SlatepackBin, Slatepacker,
	SlatepackerArgs,
};
use grin_wallet_util::{byte_ser, OnionV3Address};
use serde_json::{json, Value};
use std::convert::TryFrom;
use std::io::Write;

pub const ENTRIES: &[&str] = &[
	"slate_json",
	"slatepack_armor",
	"slatepack_armor_enc",
	"slatepack_bin",
	"slatepack_json",
	"decode_slatepack",
	"address",
	"onion_address",
	"payment_proof",
	"foreign_rpc_receive",
	"foreign_rpc_finalize",
	"foreign_rpc_coinbase",
	"owner_rpc_slate",
	"owner_rpc_misc",
	"owner_rpc_envelope",
	"owner_rpc_token",
	"slatepack_file",
	"enc_malformed",
];

pub const FAULTS: &[&str] = &[
	"bitflip",
	"bitflips",
	"truncate",
	"extend",
	"dup_segment",
	"drop_segment",
	"splice",
	"swap_words",
	"insert_ws",
	"header_edit",
	"bad_alphabet",
	"len_prefix",
	"replace_all",
	"digit_edit",
	"none",
	"quoted_paste",
	"quoted_truncated",
	"double",
];

pub struct C09 {
	gen: HistGen,
	history_len: usize,
	pre: Option<(usize, std::collections::BTreeMap<String, u64>)>,
	late_pending: bool,
	rpc: Option<(usize, u32, RpcEndpoints, Option<SecretKey>)>,
	decodes: u64,
}

/// apply one byte-level fault
pub fn fault_bytes(data: &[u8], other: &[u8], kind: &str, seed: u64) -> Vec<u8> {
	let mut r = SimRng::new(seed ^ 0xfa17);
	let mut d = data.to_vec();
	let n = d.len();
	if n == 0 {
		return d;
	}
	match kind {
		"bitflip" => {
			let i = r.idx(n);
			d[i] ^= 1 << r.below(8);
		}
		"bitflips" => {
			for _ in 0..(2 + r.below(6)) {
				let i = r.idx(n);
				d[i] ^= 1 << r.below(8);
			}
		}
		"truncate" => {
			let t = match r.below(4) {
				0 => r.below(8) as usize,
				1 => n - 1 - r.below(std::cmp::min(8, n as u64)) as usize % n,
				_ => r.idx(n),
			};
			d.truncate(std::cmp::min(t, n));
		}
		"extend" => {
			let k = 1 + r.below(64) as usize;
			if r.chance(1, 2) {
				let b = r.bytes(k);
				d.extend(b);
			} else {
				d.extend(vec![0u8; k]);
			}
		}
		"dup_segment" => {
			let a = r.idx(n);
			let b = std::cmp::min(n, a + 1 + r.below(32) as usize);
			let seg = d[a..b].to_vec();
			let at = r.idx(n);
			for (i, x) in seg.into_iter().enumerate() {
				d.insert(at + i, x);
			}
		}
		"drop_segment" => {
			let a = r.idx(n);
			let b = std::cmp::min(n, a + 1 + r.below(32) as usize);
			d.drain(a..b);
		}
		"splice" => {
			if !other.is_empty() {
				let a = r.idx(n);
				let b = r.idx(other.len());
				d.truncate(a);
				d.extend_from_slice(&other[b..]);
			}
		}
		"swap_words" => {
			// swap two whitespace-separated words (armor)
			let s = String::from_utf8_lossy(&d).to_string();
			let mut words: Vec<String> = s.split(' ').map(|x| x.to_owned()).collect();
			if words.len() > 3 {
				let a = r.idx(words.len());
				let b = r.idx(words.len());
				words.swap(a, b);
				d = words.join(" ").into_bytes();
			}
		}
		"quoted_paste" | "quoted_truncated" => {
			// a message pasted from a mail or a chat: indentation, blank lines and quote
			// markers in front of it (and, for the second kind, the paste cut short
			// somewhere after them)
			let k = 1 + r.below(20) as usize;
			let mut pre = vec![];
			for _ in 0..k {
				pre.push(*r.pick(&[b' ', b' ', b'\n', b'\t', b'>', b'\r']));
			}
			let keep = if kind == "quoted_truncated" {
				match r.below(3) {
					0 => r.below(16) as usize,
					1 => 14 + r.below(4) as usize,
					_ => r.idx(n),
				}
			} else {
				n
			};
			d.truncate(std::cmp::min(keep, n));
			pre.extend(d);
			d = pre;
		}
		"double" => {
			// two independent faults on one message
			let simple: Vec<&&str> = FAULTS.iter().filter(|f| **f != "double").collect();
			let a = **r.pick(&simple);
			let b = **r.pick(&simple);
			let d1 = fault_bytes(data, other, a, seed.wrapping_mul(31).wrapping_add(1));
			d = fault_bytes(&d1, other, b, seed.wrapping_mul(37).wrapping_add(2));
		}
		"insert_ws" => {
			let at = r.idx(n);
			let ins: &[u8] = *r.pick(&[&b" "[..], &b"\n"[..], &b">"[..], &b"\r\n"[..], &b"\t"[..], &b"."[..]]);
			for (i, x) in ins.iter().enumerate() {
				d.insert(at + i, *x);
			}
		}
		"header_edit" => {
			let s = String::from_utf8_lossy(&d).to_string();
			let s = match r.below(5) {
				0 => s.replacen("BEGINSLATEPACK", "BEGINSLATEPACk", 1),
				1 => s.replacen("ENDSLATEPACK", "ENDSLATEPAC", 1),
				2 => s.replacen("BEGINSLATEPACK.", "", 1),
				3 => s.replacen(". ENDSLATEPACK.", "", 1),
				_ => s.replacen(".", "", 1),
			};
			d = s.into_bytes();
		}
		"bad_alphabet" => {
			let i = r.idx(n);
			d[i] = *r.pick(&[b'0', b'O', b'I', b'l', b'+', b'/', 0xff, 0x00]);
		}
		"len_prefix" => {
			// extreme values in the first bytes (length prefixes / flags of binary forms)
			let i = r.below(std::cmp::min(12, n as u64)) as usize;
			d[i] = *r.pick(&[0u8, 1, 0x7f, 0x80, 0xff]);
			if r.chance(1, 2) && i + 1 < n {
				d[i + 1] = 0xff;
			}
		}
		"replace_all" => {
			d = { let k = 1 + r.below(300) as usize; r.bytes(k) };
		}
		"digit_edit" => {
			// change one decimal digit (JSON numbers: lengths, amounts, versions)
			let pos: Vec<usize> = d.iter().enumerate().filter(|(_, c)| c.is_ascii_digit()).map(|(i, _)| i).collect();
			if !pos.is_empty() {
				let i = *r.pick(&pos);
				d[i] = b'0' + r.below(10) as u8;
				if r.chance(1, 3) {
					for _ in 0..r.below(24) {
						d.insert(i, b'9');
					}
				}
			}
		}
		_ => {}
	}
	d
}

impl C09 {
	pub fn new(run: &mut Run) -> C09 {
		let mut cfg = GenCfg::swarm(run);
		cfg.boundary_args = false;
		cfg.allow_proof = true;
		cfg.w_new_invoice += 3;
		cfg.w_new_send += 6;
		cfg.w_cancel = 0;
		let history_len = 10 + run.rng.below(14) as usize;
		let gen = HistGen::new(cfg, run);
		C09 {
			gen,
			history_len,
			pre: None,
			late_pending: false,
			rpc: None,
			decodes: 0,
		}
	}

	fn rpc_for(&mut self, ex: &Exec, w: usize) -> bool {
		let opens = ex.world.wallets[w].opens;
		let stale = match &self.rpc {
			Some((rw, ro, _, _)) => *rw != w || *ro != opens,
			None => true,
		};
		if stale {
			match RpcEndpoints::new(&ex.world, w) {
				Some(ep) => self.rpc = Some((w, opens, ep, None)),
				None => return false,
			}
		}
		true
	}

	/// a session key for the owner listener (honest key exchange)
	fn owner_key(&mut self, seed: u64) -> Option<SecretKey> {
		let (_, _, ep, key) = self.rpc.as_mut()?;
		if key.is_some() {
			return key.clone();
		}
		let (sk, pk) = client_key(seed);
		let hex = {
			let secp = static_secp_instance();
			let secp = secp.lock();
			pk.serialize_vec(&secp, true).to_vec().to_hex()
		};
		let body = json!({"jsonrpc": "2.0", "method": "init_secure_api", "params": {"ecdh_pubkey": hex}, "id": 1}).to_string();
		let (_, reply) = ep.post_owner(body.as_bytes());
		let rv: Value = serde_json::from_str(&reply).ok()?;
		let k = shared_from(rv["result"]["Ok"].as_str()?, &sk)?;
		*key = Some(k.clone());
		Some(k)
	}
}

fn armored(ex: &Exec, w: usize, slate: &Slate, enc: bool) -> Option<String> {
	let owner = ex.world.owner(w);
	let mask = ex.world.mask(w);
	let rec = if enc {
		vec![owner.get_slatepack_address(mask.as_ref(), 0).ok()?]
	} else {
		vec![]
	};
	owner.create_slatepack_message(mask.as_ref(), slate, Some(0), rec).ok()
}

fn age_encrypt(addr: &SlatepackAddress, plaintext: &[u8]) -> Option<Vec<u8>> {
	let recp: age::x25519::Recipient = addr.to_age_pubkey_str().ok()?.parse().ok()?;
	let encryptor = age::Encryptor::with_recipients(vec![Box::new(recp) as Box<dyn age::Recipient>]);
	let mut encrypted = vec![];
	let mut writer = encryptor.wrap_output(&mut encrypted).ok()?;
	writer.write_all(plaintext).ok()?;
	writer.finish().ok()?;
	Some(encrypted)
}

impl Prop for C09 {
	fn id(&self) -> &'static str {
		"C09"
	}
	fn owns_panic(&self, step: &Step) -> bool {
		matches!(&step.op, Op::Custom { name, .. } if name == "decode")
	}

	fn custom(&mut self, ex: &mut Exec, name: &str, a: &Value) -> OpRes {
		if name != "decode" {
			return OpRes::Skipped("unknown".into());
		}
		let w = a["w"].as_u64().unwrap_or(0) as usize;
		if w >= ex.world.wallets.len() || !ex.world.is_open(w) || ex.msgs.is_empty() {
			return OpRes::Skipped("unavailable".into());
		}
		let entry = a["entry"].as_str().unwrap_or("slate_json").to_owned();
		let fault = a["fault"].as_str().unwrap_or("bitflip").to_owned();
		let seed = a["seed"].as_u64().unwrap_or(0);
		let src = (a["src"].as_u64().unwrap_or(0) as usize) % ex.msgs.len();
		let src2 = (a["src2"].as_u64().unwrap_or(1) as usize) % ex.msgs.len();
		let slate = ex.msgs[src].slate.clone();
		let slate2 = ex.msgs[src2].slate.clone();
		let owner = ex.world.owner(w);
		let mask = ex.world.mask(w);
		let ok = |s: String| OpRes::Ok { new_msg: None, note: s, validated: None, new_wallet: None };
		macro_rules! res {
			($r:expr) => {
				match $r {
					Ok(_) => ok("decoded".into()),
					Err(e) => OpRes::Err(format!("{}", e)),
				}
			};
		}
		match entry.as_str() {
			"slate_json" => {
				let good = crate::ops::slate_to_json(&slate);
				let other = crate::ops::slate_to_json(&slate2);
				let bad = fault_bytes(good.as_bytes(), other.as_bytes(), &fault, seed);
				let text = String::from_utf8_lossy(&bad).to_string();
				res!(Slate::deserialize_upgrade(&text))
			}
			"slatepack_armor" | "slatepack_armor_enc" | "decode_slatepack" => {
				let enc = entry != "slatepack_armor";
				let good = match armored(ex, w, &slate, enc) {
					Some(g) => g,
					None => return OpRes::Skipped("cannot encode".into()),
				};
				let other = armored(ex, w, &slate2, false).unwrap_or_default();
				let bad = fault_bytes(good.as_bytes(), other.as_bytes(), &fault, seed);
				let text = String::from_utf8_lossy(&bad).to_string();
				if entry == "decode_slatepack" {
					res!(owner.decode_slatepack_message(mask.as_ref(), text, vec![0]))
				} else {
					res!(owner.slate_from_slatepack_message(mask.as_ref(), text, vec![0, 1]))
				}
			}
			"slatepack_bin" | "slatepack_json" => {
				// with and without the optional sender field, plain and encrypted to the wallet
				let mut rr = SimRng::new(seed ^ 0x5b1);
				let sender = if rr.chance(2, 3) { owner.get_slatepack_address(mask.as_ref(), 1).ok() } else { None };
				let recipients = if rr.chance(1, 3) {
					owner.get_slatepack_address(mask.as_ref(), 0).ok().into_iter().collect()
				} else {
					vec![]
				};
				let dec_key = owner.get_slatepack_secret_key(mask.as_ref(), 0).ok();
				let packer = Slatepacker::new(SlatepackerArgs { sender, recipients, dec_key: dec_key.as_ref() });
				let sp = match packer.create_slatepack(&slate) {
					Ok(s) => s,
					Err(_) => return OpRes::Skipped("cannot pack".into()),
				};
				let good: Vec<u8> = if entry == "slatepack_bin" {
					match byte_ser::to_bytes(&SlatepackBin(sp)) {
						Ok(b) => b,
						Err(_) => return OpRes::Skipped("cannot serialise".into()),
					}
				} else {
					serde_json::to_vec(&sp).unwrap_or_default()
				};
				let bad = fault_bytes(&good, &good, &fault, seed);
				match packer.deser_slatepack(&bad, true) {
					Ok(sp) => res!(packer.get_slate(&sp)),
					Err(e) => OpRes::Err(format!("{}", e)),
				}
			}
			"address" => {
				let good = match owner.get_slatepack_address(mask.as_ref(), 0) {
					Ok(a) => format!("{}", a),
					Err(_) => return OpRes::Skipped("no address".into()),
				};
				let bad = fault_bytes(good.as_bytes(), b"grin1", &fault, seed);
				let text = String::from_utf8_lossy(&bad).to_string();
				res!(SlatepackAddress::try_from(text.as_str()))
			}
			"onion_address" => {
				let sp = match owner.get_slatepack_address(mask.as_ref(), 0) {
					Ok(a) => a,
					Err(_) => return OpRes::Skipped("no address".into()),
				};
				let good = OnionV3Address::from_bytes(sp.pub_key.to_bytes()).to_string();
				let bad = fault_bytes(good.as_bytes(), b"http://.onion", &fault, seed);
				let text = String::from_utf8_lossy(&bad).to_string();
				res!(OnionV3Address::try_from(text.as_str()))
			}
			"payment_proof" => {
				// a proof-shaped JSON built from public data of the run
				let good = json!({
					"amount": format!("{}", slate.amount.max(1)),
					"excess": "09" .to_owned() + &"ab".repeat(32),
					"recipient_address": owner.get_slatepack_address(mask.as_ref(), 0).map(|a| format!("{}", a)).unwrap_or_default(),
					"recipient_sig": "ab".repeat(64),
					"sender_address": owner.get_slatepack_address(mask.as_ref(), 1).map(|a| format!("{}", a)).unwrap_or_default(),
					"sender_sig": "cd".repeat(64),
				})
				.to_string();
				let bad = fault_bytes(good.as_bytes(), good.as_bytes(), &fault, seed);
				let text = String::from_utf8_lossy(&bad).to_string();
				match serde_json::from_str::<PaymentProof>(&text) {
					Ok(p) => res!(owner.verify_payment_proof(mask.as_ref(), &p)),
					Err(e) => OpRes::Err(format!("{}", e)),
				}
			}
			"foreign_rpc_receive" | "foreign_rpc_finalize" | "foreign_rpc_coinbase" => {
				if !self.rpc_for(ex, w) {
					return OpRes::Skipped("no endpoint".into());
				}
				let sv: Value = serde_json::from_str(&crate::ops::slate_to_json(&slate)).unwrap_or(Value::Null);
				let good = match entry.as_str() {
					"foreign_rpc_receive" => {
						// the two optional parameters are untrusted text too: an account name,
						// and an address the reply should be sent back to (never one that
						// could be reached: the simulator has no Tor)
						let mut r = SimRng::new(seed ^ 0x7e11);
						let dest = match r.below(6) {
							0 => json!("default"),
							1 => json!("no such account"),
							2 => json!(""),
							_ => Value::Null,
						};
						let r_addr = match r.below(8) {
							0 => json!(""),
							1 => json!("abc"),
							2 => json!("http://127.0.0.1:1"),
							3 => json!("grin1\u{00fc}"),
							4 => owner
								.get_slatepack_address(mask.as_ref(), 0)
								.map(|a| json!(format!("{}", a)))
								.unwrap_or(Value::Null),
							_ => Value::Null,
						};
						json!({"jsonrpc": "2.0", "method": "receive_tx", "id": 1, "params": [sv, dest, r_addr]})
					}
					"foreign_rpc_finalize" => json!({"jsonrpc": "2.0", "method": "finalize_tx", "id": 1, "params": [sv]}),
					_ => {
						// a miner's request: every field is the caller's (boundary heights and
						// fees, key ids that are not key ids)
						let mut r = SimRng::new(seed ^ 0xcb);
						let height = match r.below(6) {
							0 => json!(0),
							1 => json!(u64::MAX),
							2 => json!(u64::MAX - 1),
							3 => json!(u64::MAX - 1440),
							_ => json!(3),
						};
						let fees = match r.below(5) {
							0 => json!(u64::MAX),
							1 => json!(u64::MAX - 60_000_000_000u64),
							_ => json!(0),
						};
						let key_id = match r.below(8) {
							0 => json!(""),
							1 => json!("zz"),
							2 => json!("0300000000"),
							3 => json!("03".to_owned() + &"00".repeat(40)),
							4 => json!("\u{00fc}\u{00fc}"),
							5 => json!("0300000000000000000000000000000000"),
							_ => Value::Null,
						};
						json!({"jsonrpc": "2.0", "method": "build_coinbase", "id": 1, "params": {"block_fees": {"fees": fees, "height": height, "key_id": key_id}}})
					}
				}
				.to_string();
				let other = crate::ops::slate_to_json(&slate2);
				let bad = fault_bytes(good.as_bytes(), other.as_bytes(), &fault, seed);
				let (status, reply) = self.rpc.as_ref().unwrap().2.post_foreign(&bad);
				let rv: Value = serde_json::from_str(&reply).unwrap_or(Value::Null);
				let rejected = status >= 400 || rv.get("error").is_some() || rv["result"].get("Err").is_some();
				// an input the fault left semantically intact is not a rejected input even
				// if the call then fails for another reason (e.g. the automatic post)
				let intact = serde_json::from_slice::<Value>(&bad).ok()
					== serde_json::from_str::<Value>(&good).ok();
				if rejected && intact {
					ok(format!("{}:intact-input-failed", status))
				} else if rejected {
					OpRes::Err(format!("rpc refused ({})", status))
				} else {
					ok(format!("{}:{}", status, reply.len()))
				}
			}
			"owner_rpc_slate" | "owner_rpc_misc" => {
				if !self.rpc_for(ex, w) {
					return OpRes::Skipped("no endpoint".into());
				}
				let key = match self.owner_key(seed) {
					Some(k) => k,
					None => return OpRes::Skipped("no session key".into()),
				};
				let sv: Value = serde_json::from_str(&crate::ops::slate_to_json(&slate)).unwrap_or(Value::Null);
				let mut r = SimRng::new(seed ^ 0x0a9);
				let (method, params) = if entry == "owner_rpc_slate" {
					match r.below(4) {
						0 => ("finalize_tx", json!({"token": null, "slate": sv})),
						1 => ("tx_lock_outputs", json!({"token": null, "slate": sv})),
						2 => ("create_slatepack_message", json!({"token": null, "slate": sv, "sender_index": 0, "recipients": []})),
						_ => ("post_tx", json!({"token": null, "slate": sv, "fluff": false})),
					}
				} else {
					match r.below(5) {
						0 => ("slate_from_slatepack_message", json!({"token": null, "message": armored(ex, w, &slate, false).unwrap_or_default(), "secret_indices": [0]})),
						1 => ("decode_slatepack_message", json!({"token": null, "message": armored(ex, w, &slate, true).unwrap_or_default(), "secret_indices": [0]})),
						2 => ("retrieve_txs", json!({"token": null, "refresh_from_node": false, "tx_id": null, "tx_slate_id": format!("{}", slate.id)})),
						3 => ("query_txs", json!({"token": null, "refresh_from_node": false, "query": {"min_id": 0, "max_id": 100, "min_amount": "0", "max_amount": "600000000000", "sort_field": "Id", "sort_order": "Asc"}})),
						_ => ("init_send_tx", json!({"token": null, "args": {"src_acct_name": null, "amount": "1000000000", "minimum_confirmations": 1, "max_outputs": 500, "num_change_outputs": 1, "selection_strategy_is_use_all": false, "target_slate_version": null, "payment_proof_recipient_address": null, "ttl_blocks": null, "send_args": null, "estimate_only": true}})),
					}
				};
				// the fault hits the *inner* request; the envelope is honest, so the inner
				// decoder is reached
				let inner = json!({"jsonrpc": "2.0", "method": method, "params": params, "id": 1}).to_string();
				let bad = fault_bytes(inner.as_bytes(), inner.as_bytes(), &fault, seed);
				let inner_v: Value = match serde_json::from_slice(&bad) {
					Ok(v) => v,
					Err(_) => return OpRes::Err("inner request no longer JSON".into()),
				};
				let env = match grin_wallet_api::EncryptedRequest::from_json(&grin_wallet_api::JsonId::IntId(1), &inner_v, &key)
					.ok()
					.and_then(|e| e.as_json_str().ok())
				{
					Some(e) => e,
					None => return OpRes::Skipped("cannot build".into()),
				};
				let _ = envelope; // (helper shared with C13)
				let (status, reply) = self.rpc.as_ref().unwrap().2.post_owner(env.as_bytes());
				ok(format!("{}:{}", status, reply.len()))
			}
			"owner_rpc_envelope" | "owner_rpc_token" => {
				// the envelope of an encrypted owner request is itself untrusted input (its
				// nonce and body are decoded before anything is authenticated), and so is the
				// token field of an authenticated request
				if !self.rpc_for(ex, w) {
					return OpRes::Skipped("no endpoint".into());
				}
				let key = match self.owner_key(seed) {
					Some(k) => k,
					None => return OpRes::Skipped("no session key".into()),
				};
				let mut r = SimRng::new(seed ^ 0xe77);
				let weird: Vec<Value> = vec![
					json!(""),
					json!("a"),
					json!("abc"),
					json!("zz"),
					json!("\u{00fc}\u{00fc}"),
					json!("00\u{20ac}00"),
					json!("ab".repeat(11)),
					json!("ab".repeat(13)),
					json!("ab".repeat(31)),
					json!("ab".repeat(33)),
					json!("ab".repeat(300)),
					json!(12),
					json!([1, 2, 3]),
					json!({"a": 1}),
					Value::Null,
				];
				let env = if entry == "owner_rpc_token" {
					let tok = r.pick(&weird).clone();
					let inner = match r.below(3) {
						0 => json!({"jsonrpc": "2.0", "method": "accounts", "params": {"token": tok}, "id": 1}),
						1 => json!({"jsonrpc": "2.0", "method": "retrieve_summary_info", "params": {"token": tok, "refresh_from_node": false, "minimum_confirmations": 1}, "id": 1}),
						_ => json!({"jsonrpc": "2.0", "method": "get_slatepack_address", "params": {"token": tok, "derivation_index": 0}, "id": 1}),
					};
					match grin_wallet_api::EncryptedRequest::from_json(&grin_wallet_api::JsonId::IntId(1), &inner, &key)
						.ok()
						.and_then(|e| e.as_json_str().ok())
					{
						Some(e) => e,
						None => return OpRes::Skipped("cannot build".into()),
					}
				} else {
					let inner = json!({"jsonrpc": "2.0", "method": "accounts", "params": {"token": null}, "id": 1});
					let e = match grin_wallet_api::EncryptedRequest::from_json(&grin_wallet_api::JsonId::IntId(1), &inner, &key)
						.ok()
						.and_then(|e| e.as_json_str().ok())
					{
						Some(e) => e,
						None => return OpRes::Skipped("cannot build".into()),
					};
					let mut v: Value = serde_json::from_str(&e).unwrap_or(Value::Null);
					match r.below(4) {
						0 => v["params"]["nonce"] = r.pick(&weird).clone(),
						1 => v["params"]["body_enc"] = r.pick(&weird).clone(),
						2 => v["id"] = r.pick(&weird).clone(),
						_ => {
							let b = fault_bytes(e.as_bytes(), e.as_bytes(), &fault, seed);
							let (status, reply) = self.rpc.as_ref().unwrap().2.post_owner(&b);
							return ok(format!("{}:{}", status, reply.len()));
						}
					}
					v.to_string()
				};
				let (status, reply) = self.rpc.as_ref().unwrap().2.post_owner(env.as_bytes());
				ok(format!("{}:{}", status, reply.len()))
			}
			"slatepack_file" => {
				let good = match armored(ex, w, &slate, false) {
					Some(g) => g,
					None => return OpRes::Skipped("cannot encode".into()),
				};
				let bad = fault_bytes(good.as_bytes(), good.as_bytes(), &fault, seed);
				let path = format!("{}/torn.slatepack", ex.world.dir);
				let _ = std::fs::write(&path, &bad);
				let packer = Slatepacker::new(SlatepackerArgs { sender: None, recipients: vec![], dec_key: None });
				let p = PathToSlatepack::new(path.into(), &packer, true);
				use grin_wallet_impls::SlateGetter;
				res!(p.get_tx())
			}
			"enc_malformed" => {
				// a Byzantine peer encrypts to the victim's address a plaintext it chose
				let addr = match owner.get_slatepack_address(mask.as_ref(), 0) {
					Ok(a) => a,
					Err(_) => return OpRes::Skipped("no address".into()),
				};
				let mut r = SimRng::new(seed ^ 0xe2c);
				let plaintext: Vec<u8> = match r.below(12) {
					0 => vec![],
					1 => { let k = 1 + r.below(3) as usize; r.bytes(k) },
					2 => {
						// metadata length beyond the plaintext
						let mut v = (1000u32 + r.below(1 << 20) as u32).to_be_bytes().to_vec();
						v.extend({ let k = r.below(40) as usize; r.bytes(k) });
						v
					}
					3 => {
						let mut v = u32::MAX.to_be_bytes().to_vec();
						v.extend(r.bytes(8));
						v
					}
					7 => {
						// honest metadata for one recipient, then its length fields edited
						let mut meta = vec![];
						// (version 1.0? no: opt flags (2) | len (4) | fields) : flags say
						// "sender + recipients present", lengths are lies
						meta.extend_from_slice(&[0x00, 0x03]);
						let l = *r.pick(&[0u32, 1, 2, 3, 5, 40, 0xffff_ffff]);
						meta.extend_from_slice(&l.to_be_bytes());
						let k = r.below(80) as usize;
						meta.extend(r.bytes(k));
						let mut v = (meta.len() as u32).to_be_bytes().to_vec();
						v.extend(meta);
						v.extend(r.bytes(20));
						v
					}
					9 | 10 | 11 => {
						// metadata length right around what actually follows the prefix
						let k = r.below(24) as usize;
						let delta = *r.pick(&[-2i64, -1, 0, 1, 2, 3, 4, 5, 8]);
						let l = std::cmp::max(0, k as i64 + delta) as u32;
						let mut v = l.to_be_bytes().to_vec();
						v.extend(r.bytes(k));
						v
					}
					4 => {
						// zero-length metadata, garbage payload
						let mut v = 0u32.to_be_bytes().to_vec();
						v.extend({ let k = r.below(200) as usize; r.bytes(k) });
						v
					}
					5 => {
						// plausible metadata length, garbage metadata
						let mut v = 8u32.to_be_bytes().to_vec();
						v.extend(r.bytes(8));
						v.extend({ let k = r.below(100) as usize; r.bytes(k) });
						v
					}
					_ => {
						// honest metadata prefix (empty), faulted binary slate as payload
						let packer = Slatepacker::new(SlatepackerArgs { sender: None, recipients: vec![], dec_key: None });
						let sp = match packer.create_slatepack(&slate) {
							Ok(s) => s,
							Err(_) => return OpRes::Skipped("cannot pack".into()),
						};
						let mut v = 6u32.to_be_bytes().to_vec();
						v.extend(vec![0u8, 0, 0, 0, 0, 0]);
						v.extend(fault_bytes(&sp.payload, &sp.payload, &fault, seed));
						v
					}
				};
				let ct = if seed % 11 == 0 {
					// an age file of the passphrase kind instead of the recipients kind
					let enc = age::Encryptor::with_user_passphrase(secrecy::Secret::new("hunter2".to_owned()));
					let mut out = vec![];
					match enc.wrap_output(&mut out) {
						Ok(mut wtr) => {
							let _ = wtr.write_all(&plaintext);
							let _ = wtr.finish();
						}
						Err(_) => return OpRes::Skipped("cannot encrypt".into()),
					}
					out
				} else {
					match age_encrypt(&addr, &plaintext) {
						Some(c) => c,
						None => return OpRes::Skipped("cannot encrypt".into()),
					}
				};
				let mut sp = Slatepack::default();
				sp.mode = 1;
				sp.payload = ct;
				let text = match SlatepackArmor::encode(&sp) {
					Ok(t) => t,
					Err(_) => return OpRes::Skipped("cannot armor".into()),
				};
				// (producing a passphrase-type age file runs scrypt in the harness itself)
				crate::alloc::rebase();
				res!(owner.slate_from_slatepack_message(mask.as_ref(), text, vec![0]))
			}
			_ => OpRes::Skipped("unknown entry".into()),
		}
	}

	fn next(&mut self, run: &mut Run) -> Option<Step> {
		if self.gen.in_setup() || run.trace.len() < self.history_len || run.ex.msgs.is_empty() {
			return self.gen.next(run);
		}
		// mostly faulted decodes, now and then the history goes on (new kinds of messages)
		if run.rng.chance(1, 12) {
			return self.gen.next(run);
		}
		let nw = run.ex.world.wallets.len();
		Some(Step::new(Op::Custom {
			name: "decode".into(),
			args: json!({
				"w": run.rng.idx(nw),
				"entry": *run.rng.pick(ENTRIES),
				"fault": *run.rng.pick(FAULTS),
				"src": run.rng.below(1000),
				"src2": run.rng.below(1000),
				"seed": run.rng.below(1 << 44),
			}),
		}))
	}

	fn before(&mut self, run: &mut Run, step: &Step) {
		self.pre = None;
		self.late_pending = false;
		if let Op::Custom { name, args } = &step.op {
			if name == "decode" {
				let w = args["w"].as_u64().unwrap_or(0) as usize;
				if w < run.ex.world.wallets.len() && run.ex.world.is_open(w) {
					self.pre = Some((w, run.ex.world.dir_state(w)));
					// a late-locked send awaiting its reply (known finding: the late-lock
					// step reserves before the reply is verified)
					self.late_pending = run.model.deals.iter().any(|d| {
						d.late_lock
							&& d.payer == Some(w)
							&& run
								.ex
								.world
								.get_context(w, d.id.as_bytes())
								.map(|c| c.late_lock_args.is_some())
								.unwrap_or(false)
					});
				}
			}
		}
	}

	fn after(&mut self, run: &mut Run, step: &Step, out: &StepOut) -> Vec<Violation> {
		let mut v = vec![];
		self.gen.feedback(run, step, out);
		let args = match &step.op {
			Op::Custom { name, args } if name == "decode" => args.clone(),
			_ => return v,
		};
		if out.skipped {
			return v;
		}
		self.decodes += 1;
		let entry = args["entry"].as_str().unwrap_or("").to_owned();
		let fault = args["fault"].as_str().unwrap_or("").to_owned();
		let outcome = if out.panic.is_some() {
			"panic"
		} else if out.ok {
			"ok"
		} else {
			"err"
		};
		run.cov.case(&format!("{}|{}|{}", entry, fault, outcome), fault != "none");
		run.cov.fault(&format!("byte_fault:{}", fault));
		if out.panic.is_some() {
			return v; // reported by the engine with the panic site as signature
		}
		if out.peak_alloc > 512 * 1024 * 1024 {
			v.push(run.viol(
				"bounded_allocation",
				&format!("unbounded_allocation:{}", entry),
				format!("{} allocated {} MB while decoding a faulted ({}) input", entry, out.peak_alloc >> 20, fault),
			));
			return v;
		}
		// a rejected input leaves wallet state untouched
		if let Some((w, dig0)) = self.pre.take() {
			let rejected = out.err.is_some();
			// (owner RPC replies are encrypted; their inner outcome is not inspected, so
			// only panics, hangs and allocation are judged for them)
			if rejected && run.ex.world.is_open(w) && !entry.starts_with("owner_rpc") {
				let dig1 = run.ex.world.dir_state(w);
				if dig0 != dig1 {
					let kinds = crate::world::World::dir_diff_kinds(&dig0, &dig1);
					// two listed findings have their own signature: the late-lock step that
					// reserves before the reply is verified, and receive_tx, which writes its
					// output and log entry (and takes a key index and a log id) before it has
					// worked through the slate's signature data; anything else carries the
					// kinds of durable items that changed
					let family = if self.late_pending && entry.contains("finalize") {
						"late_lock_pending".to_owned()
					} else if entry.contains("receive")
						&& kinds.split('+').all(|k| ["index", "log", "log_id", "output"].contains(&k))
					{
						"receive_records_left".to_owned()
					} else {
						kinds.clone()
					};
					v.push(run.viol(
						"rejected_leaves_state",
						&format!("rejected_input_changed_state:{}:{}", entry, family),
						format!(
							"wallet {}: {} rejected a faulted ({}) input ({}) but the wallet directory changed ({})",
							w,
							entry,
							fault,
							out.err.clone().unwrap_or_default(),
							kinds
						),
					));
					return v;
				}
			}
		}
		if self.decodes == 10 {
			let s = sample_trace(run, 40);
			run.cov.sample(s);
		}
		v
	}
}
