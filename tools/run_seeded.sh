#!/bin/bash
# run_seeded.sh <seeded-id> <property> [tier]  : apply the seeded patch to /repo, run the check, undo
set -u
ID="$1"; PROP="$2"; TIER="${3:-quick}"
cd /repo || exit 2
git diff --quiet || { echo "/repo has uncommitted changes"; exit 2; }
git apply /verif/seeded/$ID/patch.diff || { echo "patch does not apply"; exit 2; }
cd /verif && ./check $PROP $TIER > /tmp/seeded-$ID-$PROP.log 2>&1; RC=$?
git -C /repo checkout -- .
# the binary under sim/target is now the one built against the *patched* tree: rebuild it
# from the clean tree at once, so that nothing started by hand afterwards uses it
(cd /verif/sim && CARGO_NET_OFFLINE=true cargo build --release --offline >/dev/null 2>&1)
echo "seeded=$ID property=$PROP tier=$TIER exit=$RC"
grep -E "^VIOLATION|^  oracle|KNOWN-FINDING|gwsim batch" /tmp/seeded-$ID-$PROP.log | cut -c1-400
