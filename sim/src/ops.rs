//! The alphabet of histories: explicit, serialisable steps and their executor.
//! A trace (list of steps) is all a replay needs; steps refer to wallets,
//! messages and accounts by creation order / label, never by random ids.

use crate::hooks::{self, CrashSignal, Fault};
use crate::world::World;
use grin_core::core::Transaction;
use grin_wallet_libwallet::{
	BlockFees, InitTxArgs, IssueInvoiceTxArgs, Slate, SlateState, SlateVersion, SlatepackAddress,
	VersionedSlate,
};
use serde_derive::{Deserialize, Serialize};
use std::panic::{catch_unwind, AssertUnwindSafe};
use std::sync::Mutex;

#[derive(Clone, Debug, Serialize, Deserialize, PartialEq)]
pub enum Enc {
	/// hand over the in-memory slate
	Mem,
	/// V4 JSON text, decoded by the receiver's real decoding path
	Json,
	/// armored slatepack, binary payload, unencrypted
	Armor,
	/// armored slatepack encrypted to the receiver's address (index 0)
	ArmorEnc,
}

#[derive(Clone, Debug, Serialize, Deserialize, PartialEq)]
pub struct SendArgs {
	pub amount: u64,
	pub min_conf: u64,
	pub max_outputs: u32,
	pub num_change: u32,
	pub use_all: bool,
	#[serde(default)]
	pub incl_fee: bool,
	#[serde(default)]
	pub ttl: Option<u64>,
	#[serde(default)]
	pub late_lock: bool,
	#[serde(default)]
	pub estimate: bool,
	#[serde(default)]
	pub src_acct: Option<String>,
	/// request a payment proof from this wallet's address (active account, index 0)
	#[serde(default)]
	pub proof_to: Option<usize>,
}

impl SendArgs {
	pub fn simple(amount: u64) -> SendArgs {
		SendArgs {
			amount,
			min_conf: 1,
			max_outputs: 500,
			num_change: 1,
			use_all: false,
			incl_fee: false,
			ttl: None,
			late_lock: false,
			estimate: false,
			src_acct: None,
			proof_to: None,
		}
	}
}

#[derive(Clone, Debug, Serialize, Deserialize, PartialEq)]
#[serde(tag = "op")]
pub enum Op {
	CreateWallet {
		mnemonic: Option<String>,
		password: String,
		mask: bool,
	},
	Restore {
		src: usize,
	},
	Mine {
		w: Option<usize>,
		n: u32,
		txs: bool,
	},
	InitSend {
		w: usize,
		args: SendArgs,
	},
	Lock {
		w: usize,
		m: usize,
	},
	Receive {
		w: usize,
		m: usize,
		dest: Option<String>,
		enc: Enc,
	},
	Finalize {
		w: usize,
		m: usize,
		foreign: bool,
	},
	Post {
		w: usize,
		m: usize,
	},
	IssueInvoice {
		w: usize,
		amount: u64,
		dest: Option<String>,
	},
	PayInvoice {
		w: usize,
		m: usize,
		args: SendArgs,
	},
	Cancel {
		w: usize,
		m: Option<usize>,
		id: Option<u32>,
	},
	Refresh {
		w: usize,
	},
	Scan {
		w: usize,
		start: Option<u64>,
		del: bool,
	},
	NewAccount {
		w: usize,
		label: String,
	},
	SetAccount {
		w: usize,
		label: String,
	},
	Restart {
		w: usize,
	},
	Node {
		down: bool,
	},
	Fork {
		depth: u64,
		extra: u64,
		include: bool,
		readd: bool,
	},
	Clock {
		delta_ms: i64,
	},
	/// derive a new message from message m by one mutation
	Mutate {
		m: usize,
		kind: String,
		arg: u64,
	},
	/// property-specific operation interpreted by the property module
	Custom {
		name: String,
		args: serde_json::Value,
	},
}

#[derive(Clone, Debug, Serialize, Deserialize, PartialEq)]
pub struct Step {
	#[serde(flatten)]
	pub op: Op,
	#[serde(default, skip_serializing_if = "Option::is_none")]
	pub fault: Option<Fault>,
	/// (k, from): fail the k-th node call of this op (and all later ones if from)
	#[serde(default, skip_serializing_if = "Option::is_none")]
	pub node_fail: Option<(u32, bool)>,
}

impl Step {
	pub fn new(op: Op) -> Step {
		Step {
			op,
			fault: None,
			node_fail: None,
		}
	}
	pub fn wallet(&self) -> Option<usize> {
		match &self.op {
			Op::Mine { w, .. } => *w,
			Op::InitSend { w, .. }
			| Op::Lock { w, .. }
			| Op::Receive { w, .. }
			| Op::Finalize { w, .. }
			| Op::Post { w, .. }
			| Op::IssueInvoice { w, .. }
			| Op::PayInvoice { w, .. }
			| Op::Cancel { w, .. }
			| Op::Refresh { w }
			| Op::Scan { w, .. }
			| Op::NewAccount { w, .. }
			| Op::SetAccount { w, .. }
			| Op::Restart { w } => Some(*w),
			Op::Custom { args, .. } => args.get("w").and_then(|x| x.as_u64()).map(|x| x as usize),
			_ => None,
		}
	}
	pub fn kind(&self) -> &'static str {
		match &self.op {
			Op::CreateWallet { .. } => "create_wallet",
			Op::Restore { .. } => "restore",
			Op::Mine { .. } => "mine",
			Op::InitSend { .. } => "init_send",
			Op::Lock { .. } => "lock",
			Op::Receive { .. } => "receive",
			Op::Finalize { .. } => "finalize",
			Op::Post { .. } => "post",
			Op::IssueInvoice { .. } => "issue_invoice",
			Op::PayInvoice { .. } => "pay_invoice",
			Op::Cancel { .. } => "cancel",
			Op::Refresh { .. } => "refresh",
			Op::Scan { .. } => "scan",
			Op::NewAccount { .. } => "new_account",
			Op::SetAccount { .. } => "set_account",
			Op::Restart { .. } => "restart",
			Op::Node { .. } => "node",
			Op::Fork { .. } => "fork",
			Op::Clock { .. } => "clock",
			Op::Mutate { .. } => "mutate",
			Op::Custom { .. } => "custom",
		}
	}
}

/// A slate on the simulated wire
#[derive(Clone, Debug)]
pub struct Msg {
	pub slate: Slate,
	pub from: Option<usize>,
	pub parent: Option<usize>,
	pub mutated: Option<String>,
	pub tx: Option<Transaction>,
}

#[derive(Clone, Debug, Default)]
pub struct StepOut {
	pub skipped: bool,
	pub ok: bool,
	pub err: Option<String>,
	pub new_msg: Option<usize>,
	pub new_wallet: Option<usize>,
	pub crashed: bool,
	pub reopen_err: Option<String>,
	pub panic: Option<String>,
	pub visited: Vec<String>,
	pub fault_fired: bool,
	pub node_calls: u32,
	pub node_log: Vec<String>,
	pub note: String,
	pub validated: Option<bool>,
	/// peak heap growth during the step (bytes)
	pub peak_alloc: usize,
}

lazy_static::lazy_static! {
	pub static ref LAST_PANIC: Mutex<Option<String>> = Mutex::new(None);
}

pub fn install_panic_hook(verbose: bool) {
	std::panic::set_hook(Box::new(move |info| {
		let loc = info
			.location()
			.map(|l| format!("{}:{}", l.file(), l.line()))
			.unwrap_or_else(|| "?".into());
		let msg = if let Some(s) = info.payload().downcast_ref::<&str>() {
			s.to_string()
		} else if let Some(s) = info.payload().downcast_ref::<String>() {
			s.clone()
		} else {
			"<non-string panic>".into()
		};
		let short: String = msg.chars().take(160).collect();
		// when the panic fires inside a dependency, name the wallet frame that called it
		let loc = if !loc.contains("/repo/") && !loc.starts_with("src/") {
			let bt = format!("{}", std::backtrace::Backtrace::force_capture());
			let mut caller = None;
			for l in bt.lines() {
				let l = l.trim();
				if let Some(rest) = l.strip_prefix("at ") {
					if rest.starts_with("/repo/") {
						let mut parts = rest.rsplitn(2, ':');
						let _col = parts.next();
						caller = parts.next().map(|x| x.to_owned());
						break;
					}
				}
			}
			match caller {
				Some(c) => format!("{} (in {})", c, loc.rsplit('/').take(3).collect::<Vec<_>>().into_iter().rev().collect::<Vec<_>>().join("/")),
				None => loc,
			}
		} else {
			loc
		};
		if verbose {
			eprintln!("[gwsim] panic at {}: {}", loc, short);
		}
		*LAST_PANIC.lock().unwrap() = Some(format!("{} :: {}", loc, short));
	}));
}

pub enum OpRes {
	Ok {
		new_msg: Option<Msg>,
		note: String,
		validated: Option<bool>,
		new_wallet: Option<usize>,
	},
	Err(String),
	Skipped(String),
}

fn ok() -> OpRes {
	OpRes::Ok {
		new_msg: None,
		note: String::new(),
		validated: None,
		new_wallet: None,
	}
}
fn ok_msg(m: Msg) -> OpRes {
	OpRes::Ok {
		new_msg: Some(m),
		note: String::new(),
		validated: None,
		new_wallet: None,
	}
}

pub fn slate_to_json(s: &Slate) -> String {
	let v = VersionedSlate::into_version(s.clone(), SlateVersion::V4).unwrap();
	serde_json::to_string(&v).unwrap()
}

pub struct Exec {
	pub world: World,
	pub msgs: Vec<Msg>,
}

impl Exec {
	pub fn init_args(&self, a: &SendArgs) -> Result<InitTxArgs, String> {
		let mut proof_addr: Option<SlatepackAddress> = None;
		if let Some(pw) = a.proof_to {
			if pw >= self.world.wallets.len() || !self.world.is_open(pw) {
				return Err("proof_to wallet unavailable".into());
			}
			let addr = self
				.world
				.owner(pw)
				.get_slatepack_address(self.world.mask(pw).as_ref(), 0)
				.map_err(|e| format!("{}", e))?;
			proof_addr = Some(addr);
		}
		Ok(InitTxArgs {
			src_acct_name: a.src_acct.clone(),
			amount: a.amount,
			amount_includes_fee: if a.incl_fee { Some(true) } else { None },
			minimum_confirmations: a.min_conf,
			max_outputs: a.max_outputs,
			num_change_outputs: a.num_change,
			selection_strategy_is_use_all: a.use_all,
			target_slate_version: None,
			ttl_blocks: a.ttl,
			payment_proof_recipient_address: proof_addr,
			estimate_only: if a.estimate { Some(true) } else { Some(false) },
			late_lock: if a.late_lock { Some(true) } else { Some(false) },
			send_args: None,
		})
	}

	/// Carry a slate to wallet `w` through the chosen encoding and the
	/// receiver's real decoding path.
	pub fn transport(&self, w: usize, slate: &Slate, enc: &Enc) -> Result<Slate, String> {
		match enc {
			Enc::Mem => Ok(slate.clone()),
			Enc::Json => {
				let js = slate_to_json(slate);
				Slate::deserialize_upgrade(&js).map_err(|e| format!("json decode: {}", e))
			}
			Enc::Armor | Enc::ArmorEnc => {
				let owner = self.world.owner(w);
				let mask = self.world.mask(w);
				let recipients = if *enc == Enc::ArmorEnc {
					vec![owner
						.get_slatepack_address(mask.as_ref(), 0)
						.map_err(|e| format!("{}", e))?]
				} else {
					vec![]
				};
				// the sender side of the codec is run by the receiver's library too: the
				// codec is wallet-independent
				let text = owner
					.create_slatepack_message(mask.as_ref(), slate, Some(0), recipients)
					.map_err(|e| format!("slatepack encode: {}", e))?;
				owner
					.slate_from_slatepack_message(mask.as_ref(), text, vec![0])
					.map_err(|e| format!("slatepack decode: {}", e))
			}
		}
	}

	fn need_wallet(&self, w: usize) -> Option<OpRes> {
		if w >= self.world.wallets.len() {
			return Some(OpRes::Skipped("no such wallet".into()));
		}
		if !self.world.is_open(w) {
			return Some(OpRes::Skipped("wallet closed".into()));
		}
		None
	}
	fn need_msg(&self, m: usize) -> Option<OpRes> {
		if m >= self.msgs.len() {
			return Some(OpRes::Skipped("no such message".into()));
		}
		None
	}

	pub fn exec_inner(&mut self, op: &Op) -> OpRes {
		macro_rules! needw {
			($w:expr) => {
				if let Some(r) = self.need_wallet($w) {
					return r;
				}
			};
		}
		macro_rules! needm {
			($m:expr) => {
				if let Some(r) = self.need_msg($m) {
					return r;
				}
			};
		}
		macro_rules! tr {
			($e:expr) => {
				match $e {
					Ok(v) => v,
					Err(e) => return OpRes::Err(format!("{}", e)),
				}
			};
		}
		match op {
			Op::CreateWallet {
				mnemonic,
				password,
				mask,
			} => {
				let idx = tr!(self.world.create_wallet(mnemonic.clone(), password, *mask));
				OpRes::Ok {
					new_msg: None,
					note: String::new(),
					validated: None,
					new_wallet: Some(idx),
				}
			}
			Op::Restore { src } => {
				if *src >= self.world.wallets.len() {
					return OpRes::Skipped("no such wallet".into());
				}
				let idx = tr!(self.world.restore_wallet(*src));
				OpRes::Ok {
					new_msg: None,
					note: String::new(),
					validated: None,
					new_wallet: Some(idx),
				}
			}
			Op::Mine { w, n, txs } => {
				for _ in 0..*n {
					let prev = self.world.chain.head_header();
					let sel = if *txs {
						self.world.chain.select_txs(8)
					} else {
						vec![]
					};
					let fees: u64 = sel.iter().map(|t| t.fee()).sum();
					let mut paid = None;
					let reward = match w {
						Some(wi) if *wi < self.world.wallets.len() && self.world.is_open(*wi) => {
							let bf = BlockFees {
								fees,
								height: prev.height + 1,
								key_id: None,
							};
							match self.world.foreign(*wi).build_coinbase(&bf) {
								Ok(cb) => {
									paid = Some(*wi);
									(cb.output, cb.kernel)
								}
								Err(e) => return OpRes::Err(format!("build_coinbase: {}", e)),
							}
						}
						_ => self.world.chain.miner_reward(fees),
					};
					if let Err(e) = self.world.chain.add_block(&prev, &sel, reward, paid) {
						return OpRes::Err(format!("HARNESS add_block: {}", e));
					}
				}
				ok()
			}
			Op::InitSend { w, args } => {
				needw!(*w);
				let a = match self.init_args(args) {
					Ok(a) => a,
					Err(e) => return OpRes::Skipped(e),
				};
				let s = tr!(self.world.owner(*w).init_send_tx(self.world.mask(*w).as_ref(), a));
				if args.estimate {
					return OpRes::Ok {
						new_msg: None,
						note: format!("estimate total={} fee={}", s.amount, s.fee_fields.fee()),
						validated: None,
						new_wallet: None,
					};
				}
				ok_msg(Msg {
					slate: s,
					from: Some(*w),
					parent: None,
					mutated: None,
					tx: None,
				})
			}
			Op::Lock { w, m } => {
				needw!(*w);
				needm!(*m);
				let s = self.msgs[*m].slate.clone();
				tr!(self
					.world
					.owner(*w)
					.tx_lock_outputs(self.world.mask(*w).as_ref(), &s));
				ok()
			}
			Op::Receive { w, m, dest, enc } => {
				needw!(*w);
				needm!(*m);
				let s = match self.transport(*w, &self.msgs[*m].slate, enc) {
					Ok(s) => s,
					Err(e) => return OpRes::Err(format!("TRANSPORT {}", e)),
				};
				let r = tr!(self.world.foreign(*w).receive_tx(&s, dest.as_deref(), None));
				ok_msg(Msg {
					slate: r,
					from: Some(*w),
					parent: Some(*m),
					mutated: None,
					tx: None,
				})
			}
			Op::Finalize { w, m, foreign } => {
				needw!(*w);
				needm!(*m);
				let s = self.msgs[*m].slate.clone();
				let r = if *foreign {
					tr!(self.world.foreign(*w).finalize_tx(&s, false))
				} else {
					tr!(self
						.world
						.owner(*w)
						.finalize_tx(self.world.mask(*w).as_ref(), &s))
				};
				let tx = r.tx.clone();
				ok_msg(Msg {
					slate: r,
					from: Some(*w),
					parent: Some(*m),
					mutated: None,
					tx,
				})
			}
			Op::Post { w, m } => {
				needw!(*w);
				needm!(*m);
				let s = self.msgs[*m].slate.clone();
				if s.tx.is_none() {
					return OpRes::Skipped("message carries no transaction".into());
				}
				tr!(self
					.world
					.owner(*w)
					.post_tx(self.world.mask(*w).as_ref(), &s, true));
				ok()
			}
			Op::IssueInvoice { w, amount, dest } => {
				needw!(*w);
				let a = IssueInvoiceTxArgs {
					dest_acct_name: dest.clone(),
					amount: *amount,
					target_slate_version: None,
				};
				let s = tr!(self
					.world
					.owner(*w)
					.issue_invoice_tx(self.world.mask(*w).as_ref(), a));
				ok_msg(Msg {
					slate: s,
					from: Some(*w),
					parent: None,
					mutated: None,
					tx: None,
				})
			}
			Op::PayInvoice { w, m, args } => {
				needw!(*w);
				needm!(*m);
				let a = match self.init_args(args) {
					Ok(a) => a,
					Err(e) => return OpRes::Skipped(e),
				};
				let s = self.msgs[*m].slate.clone();
				let r = tr!(self.world.owner(*w).process_invoice_tx(
					self.world.mask(*w).as_ref(),
					&s,
					a
				));
				ok_msg(Msg {
					slate: r,
					from: Some(*w),
					parent: Some(*m),
					mutated: None,
					tx: None,
				})
			}
			Op::Cancel { w, m, id } => {
				needw!(*w);
				let sid = match m {
					Some(m) => {
						needm!(*m);
						Some(self.msgs[*m].slate.id)
					}
					None => None,
				};
				tr!(self
					.world
					.owner(*w)
					.cancel_tx(self.world.mask(*w).as_ref(), *id, sid));
				ok()
			}
			Op::Refresh { w } => {
				needw!(*w);
				let (v, info) = tr!(self.world.owner(*w).retrieve_summary_info(
					self.world.mask(*w).as_ref(),
					true,
					1
				));
				OpRes::Ok {
					new_msg: None,
					note: serde_json::to_string(&info).unwrap_or_default(),
					validated: Some(v),
					new_wallet: None,
				}
			}
			Op::Scan { w, start, del } => {
				needw!(*w);
				tr!(self
					.world
					.owner(*w)
					.scan(self.world.mask(*w).as_ref(), *start, *del));
				ok()
			}
			Op::NewAccount { w, label } => {
				needw!(*w);
				tr!(self
					.world
					.owner(*w)
					.create_account_path(self.world.mask(*w).as_ref(), label));
				ok()
			}
			Op::SetAccount { w, label } => {
				needw!(*w);
				tr!(self
					.world
					.owner(*w)
					.set_active_account(self.world.mask(*w).as_ref(), label));
				ok()
			}
			Op::Restart { w } => {
				if *w >= self.world.wallets.len() {
					return OpRes::Skipped("no such wallet".into());
				}
				tr!(self.world.restart(*w));
				ok()
			}
			Op::Node { down } => {
				self.world.chain.set_down(*down);
				ok()
			}
			Op::Fork {
				depth,
				extra,
				include,
				readd,
			} => match self.world.chain.fork(*depth, *extra, *include, *readd) {
				Ok(_) => ok(),
				Err(e) => OpRes::Skipped(format!("fork: {}", e)),
			},
			Op::Clock { delta_ms } => {
				hooks::advance_ms(*delta_ms);
				ok()
			}
			Op::Mutate { m, kind, arg } => {
				needm!(*m);
				match crate::mutate::mutate_slate(self, *m, kind, *arg) {
					Some(s) => ok_msg(Msg {
						slate: s,
						from: None,
						parent: Some(*m),
						mutated: Some(kind.clone()),
						tx: None,
					}),
					None => OpRes::Skipped("mutation not applicable".into()),
				}
			}
			Op::Custom { .. } => OpRes::Skipped("custom op without handler".into()),
		}
	}

	/// Execute one step under its fault plan. `custom` handles Op::Custom.
	pub fn exec(
		&mut self,
		step: &Step,
		custom: &mut dyn FnMut(&mut Exec, &str, &serde_json::Value) -> OpRes,
	) -> StepOut {
		hooks::begin_op(step.fault.clone());
		self.world.chain.begin_op(
			step.node_fail.map(|x| x.0),
			step.node_fail.map(|x| x.1).unwrap_or(false),
		);
		*LAST_PANIC.lock().unwrap() = None;
		let alloc_base = crate::alloc::begin_step();
		let res = catch_unwind(AssertUnwindSafe(|| match &step.op {
			Op::Custom { name, args } => custom(self, name, args),
			op => self.exec_inner(op),
		}));
		let peak_alloc = crate::alloc::end_step(alloc_base);
		let (visited, fired) = hooks::end_op();
		let (node_calls, node_log) = self.world.chain.end_op();
		let mut out = StepOut {
			visited,
			fault_fired: fired,
			node_calls,
			node_log,
			peak_alloc,
			..Default::default()
		};
		match res {
			Ok(OpRes::Ok {
				new_msg,
				note,
				validated,
				new_wallet,
			}) => {
				out.ok = true;
				out.note = note;
				out.validated = validated;
				out.new_wallet = new_wallet;
				if let Some(m) = new_msg {
					self.msgs.push(m);
					out.new_msg = Some(self.msgs.len() - 1);
				}
			}
			Ok(OpRes::Err(e)) => {
				out.err = Some(e);
			}
			Ok(OpRes::Skipped(why)) => {
				out.skipped = true;
				out.note = why;
			}
			Err(payload) => {
				if payload.is::<CrashSignal>() {
					out.crashed = true;
				} else {
					let p = LAST_PANIC
						.lock()
						.unwrap()
						.take()
						.unwrap_or_else(|| "unknown panic".into());
					out.panic = Some(p);
				}
				// process death: only the directory survives; reopen
				if let Some(w) = step.wallet() {
					if w < self.world.wallets.len() {
						self.world.drop_handles(w);
						let r = catch_unwind(AssertUnwindSafe(|| self.world.open(w)));
						match r {
							Ok(Ok(())) => {}
							Ok(Err(e)) => out.reopen_err = Some(format!("{}", e)),
							Err(_) => {
								let p = LAST_PANIC
									.lock()
									.unwrap()
									.take()
									.unwrap_or_else(|| "unknown panic".into());
								out.reopen_err = Some(format!("PANIC {}", p));
							}
						}
					}
				}
			}
		}
		out
	}
}

pub fn state_name(s: &SlateState) -> &'static str {
	match s {
		SlateState::Unknown => "UN",
		SlateState::Standard1 => "S1",
		SlateState::Standard2 => "S2",
		SlateState::Standard3 => "S3",
		SlateState::Invoice1 => "I1",
		SlateState::Invoice2 => "I2",
		SlateState::Invoice3 => "I3",
	}
}
