//! Property modules: generator policy + oracles per property.

use crate::run::Prop;

pub mod c01;
pub mod c02;
pub mod c03;
pub mod c04;
pub mod c05;
pub mod c06;
pub mod c07;
pub mod c09;
pub mod c10;
pub mod c11;
pub mod c12;
pub mod c13;
pub mod c14;
pub mod c15;
pub mod c16;
pub mod c17;
pub mod c18;
pub mod c19;
pub mod c20;

pub fn make(id: &str, run: &mut crate::run::Run) -> Option<Box<dyn Prop>> {
	match id {
		"C01" => Some(Box::new(c01::C01::new(run))),
		"C02" => Some(Box::new(c02::C02::new(run))),
		"C03" => Some(Box::new(c03::C03::new(run))),
		"C06" => Some(Box::new(c06::C06::new(run))),
		"C07" => Some(Box::new(c07::C07::new(run))),
		"C09" => Some(Box::new(c09::C09::new(run))),
		"C10" => Some(Box::new(c10::C10::new(run))),
		"C11" => Some(Box::new(c11::C11::new(run))),
		"C12" => Some(Box::new(c12::C12::new(run))),
		"C13" => Some(Box::new(c13::C13::new(run))),
		"C14" => Some(Box::new(c14::C14::new(run))),
		"C15" => Some(Box::new(c15::C15::new(run))),
		"C16" => Some(Box::new(c16::C16::new(run))),
		"C17" => Some(Box::new(c17::C17::new(run))),
		"C18" => Some(Box::new(c18::C18::new(run))),
		"C19" => Some(Box::new(c19::C19::new(run))),
		"C20" => Some(Box::new(c20::C20::new(run))),
		"C05" => Some(Box::new(c05::C05::new(run))),
		"C04" => Some(Box::new(c04::C04::new(run))),
		_ => None,
	}
}

/// for replay: a module whose generator is never consulted
pub fn make_for_replay(id: &str, run: &mut crate::run::Run) -> Option<Box<dyn Prop>> {
	make(id, run)
}

pub const ALL: &[&str] = &["C01", "C02", "C03", "C04", "C05", "C06", "C07", "C09", "C10", "C11", "C12", "C13", "C14", "C15", "C16", "C17", "C18", "C19", "C20"];

/// (runs, max steps per run) per tier
pub fn budget(id: &str, thorough: bool) -> (u64, usize) {
	match (id, thorough) {
		("C06", false) => (120, 70),
		("C06", true) => (300, 90),
		("C09", false) => (160, 160),
		("C09", true) => (400, 400),
		("C10", false) => (160, 40),
		("C10", true) => (160, 120),
		("C20", false) => (48, 70),
		("C20", true) => (120, 90),
		("C13", false) => (160, 90),
		("C13", true) => (2000, 140),
		(_, false) => (160, 45),
		(_, true) => (1000, 60),
	}
}

pub fn level(id: &str) -> &'static str {
	match id {
		"C06" => "fault_enumeration",
		_ => "exploration",
	}
}

pub fn rule(id: &str) -> String {
	match id {
		"C03" => "seeded histories (2-3 wallets, 1-3 accounts, 2-4 slates in flight, duplicated/re-ordered deliveries); a case is one step executed while >=2 slates are in flight on the acting wallet or a repeated protocol step; non-trivial when two in-flight slates pay from the same account or the step repeats an earlier successful one; distinct by (step kind, #in flight, repeated?, same account?, outcome)".into(),
		"C04" => "seeded histories (mining, sends both ways, invoices, self-sends, accounts, restarts, node-call failures inside refresh); a case is one successful refresh of an untainted wallet/account; non-trivial when the account's output records changed since its previous judged refresh; distinct by (wallet, account, output-record digest)".into(),
		"C01" => "seeded histories building varied output sets (coinbases of several maturities, change, locked/unconfirmed outputs, several accounts) followed by bursts of init_send_tx / process_invoice_tx with boundary-rich arguments (amount 0,1,balance+-1,2^32,2^40,u64::MAX-k; min confirmations 0..10; max_outputs 1..500; change outputs 0..7; both strategies; amount-includes-fee; late lock; estimate) under node-call failures and failing writes; a case is one such call with (arguments, outcome); non-trivial when selection produced >=1 input or the call hit a named boundary region (zero change outputs, near numeric limit, injected fault); distinct by argument shape x #inputs".into(),
		"C05" => "seeded histories; a case is one cancel_tx whose wallet had a base snapshot (refreshed, chain frozen, touched only by the target transaction since) or one refused cancel on a fresh wallet; non-trivial when the rollback comparison ran or the refusal reason was confirmed/coinbase/already-cancelled/unknown; distinct by (entry kind, #transactions touched, #other pending) / refusal class".into(),
		"C02" => "seeded send / late-lock / self-send / invoice exchanges from wallets in arbitrary mid-history states; in most runs a fraction of replies is altered by one field-level mutation (amount, fee, offset, participant key/nonce/partial signature swapped, dropped, duplicated or taken from another slate, commitments added/removed/replaced, range proof swapped, state, id, participant count, ttl, kernel features, payment-proof fields) before finalization; a case is one finalize attempt (flow kind x mutation kind or honest) or one cancel after a refused finalize; every case counts as non-trivial (the context existed and the reply was well-formed up to one mutation)".into(),
		"C11" => "seeded proof-carrying sends between 3 wallets, replies altered on their proof fields / amount / participant key, then export by the sender and verification by sender, recipient and a third wallet of the proof and of single-field mutations of it, with the kernel not mined, mined, and re-organised away; a case is one finalize (mutation x answered-by-requested-recipient x outcome) or one verification (mutation x chain state x outcome)".into(),
		"C07" => "seeded honest histories (victims with pending sends, invoices, late-locked transactions) interleaved with a Byzantine peer on the foreign API: harvested slates replayed to receive_tx/finalize_tx, one-field mutations of them, forged slates carrying ids of the victim's pending transactions, build_coinbase with guessable key ids of existing outputs, unknown accounts; a case is one foreign call (method x slate class x outcome); every case reached wallet code".into(),
		"C17" => "seeded histories with ttl_blocks on sends and cutoffs rewritten on the wire to h-1, h, h+1, h+2, 0, u64::MAX, 1 relative to the height the receiving wallet last observed, many single-block mines and refreshes; a case is one receive/pay/finalize of a slate (step x cutoff relation x outcome) or one outstanding entry seen by a successful refresh (expired or not); non-trivial when a cutoff is present".into(),
		"C19" => "seeded histories (all entry types, several accounts, cancelled / confirmed / outstanding entries) under a virtual clock that jumps forwards and backwards, so logs have equal timestamps, creation order != id order and confirmation before creation; after every few steps retrieve_txs is called with query arguments drawn field by field (absent / equal to a stored value / one below / one above), all sort fields and orders, limits 0,1,2,3,100, and look-ups by log id and slate id; a case is one query (set of fields present); non-trivial when the active account's log has >=2 entries that the query's fields discriminate".into(),
		"C06" => "seeded histories (8-26 steps) bring 2-3 real wallets to a state; the generator's next natural wallet operation (init, lock, receive, finalize, invoice steps, cancel, refresh, scan, create account) is the target; from a directory snapshot it is run fault-free once (lists the persistence points visited: every LMDB batch commit pre/post incl. key-index bumps, stored-transaction file pre/post) and then once per point with a crash, once with a failing write, and for the stored-transaction file once per truncation length in {0,1,odd middle,len-1} (+12 sampled lengths in thorough); a case is one (pre-state digest, operation, point, fault kind / truncation length); non-trivial when the point was reached and the fault fired".into(),
		"C12" => "seeded histories of every flow (sends, late locks, invoices, proofs, all wire encodings); after every step every file under every wallet directory (raw LMDB pages, stored transactions, seed files) and every emitted slate is searched for each seed (raw, hex, HEX, base64, JSON int array), each mnemonic, and sec_key / sec_nonce / initial_sec_key / initial_sec_nonce of every private context the simulator has read with observer privilege, in the same encodings; seed files are opened with right and wrong passwords (prefix, case, unicode, 300 chars, blank) through the wallet and through an independent PBKDF2-HMAC-SHA512(100)+ChaCha20-Poly1305 implementation; change_password is run with a crash / failing operation at every file-operation point and the written seed file cut to 0, 1, half, len-1 bytes; per wallet every public nonce and public excess on emitted slates is recorded against its slate id; a case is one scanned file or message / one password attempt / one lifecycle fault variant; non-trivial when a secret existed to look for, the password was wrong, or the fault fired".into(),
		"C15" => "seeded histories of output-creating operations over several accounts (receive, change incl. multi-change, coinbase, invoice, build_output) with restarts, crashes and failing writes at LMDB commit / stored-tx points in between, and restores from seed followed by a scan; every output record ever committed is observed through the save hook (counted only when its batch commits) and keyed by (wallet, key path); a case is one committed output record or one (restore, account) next-path comparison".into(),
		"C16" => "seeded multi-account histories incl. cancel-after-broadcast and reorgs, with the scan batch size knob drawn from {1,2,3,5,8,1000} so the PMMR batch loop crosses batch boundaries; then (a) a new wallet from the same mnemonic scanned from a drawn start height, (b) stored-state divergences injected into an up-to-date wallet (output record deleted, Unspent->Spent, Unspent->Locked, stale Unconfirmed record) followed by scan with delete_unconfirmed in {false,true}, (c) the same scan again; a case is one scan (restore/repair x delete flag x start x divergence kinds x batch crossed); non-trivial when a divergence was present, a restore found >=1 output, or a batch boundary was crossed".into(),
		"C18" => "seeded histories in which a wallet receives, the payment is mined and reported confirmed, then a fork of depth 1..6 is aimed at / just above / just below the receiving block (with or without re-including the transaction, fork length depth+1..2), with refreshes and scans at arbitrary points, sends attempted while reverted, and re-mining; a case is one (scan or refresh, payment on chain?, entry type) observation; non-trivial when the fork removed a payment the wallet had reported confirmed".into(),
		"C13" => "after a seeded history the real OwnerAPIHandlerV3 of a wallet is driven in-process by sessions of 40-120 requests from a legitimate client (ECDH key exchange, AES-GCM envelopes) and an attacker on the wire: plaintext calls of 13 methods, envelopes under superseded / random keys, replays from before a re-key, bit flips in body or nonce, arrays, nested envelopes, truncated and garbage bodies, malformed key exchanges, re-initialisation in clear and inside an envelope, restarts; a case is one request (kind x method x session epoch); non-trivial when the request is not an honest call under the current key".into(),
		"C14" => "seeded histories on wallets opened with a keychain mask (restarts give every wallet several successive tokens); at random wallet states every token-taking api::Owner method (14 state-changing / key-deriving / secret-revealing ones and 6 read-only ones) is called with the right token, no token, a random token, the right token with one bit flipped, another wallet's token and the token of a previous open; wallets are closed through close_wallet and called again; at the end the same explicit trace is replayed in an unmasked twin world and step outcomes and a canonical end-state projection (per account value/status/coinbase of outputs, entry types, amounts, confirmations, proofs) are compared; a case is one call (method x token class x open/closed) or one twin comparison; non-trivial when the token is not the right one or the wallet is closed".into(),
		"C09" => "after a seeded history has put valid traffic of every kind on the wire (S1/S2/S3/I1/I2 slates, with and without proofs and TTLs), bursts of faulted decodes: an entry point (V4 slate JSON, armored slatepack plain / encrypted to the wallet, binary and JSON slatepack, decode_slatepack_message, slatepack and onion address, payment-proof JSON + verify, foreign JSON-RPC receive_tx / finalize_tx / build_coinbase bodies, owner JSON-RPC requests inside an honest encrypted envelope, slatepack file, age ciphertext validly encrypted to the wallet with a malformed plaintext) x a byte-level fault (bit flip(s), truncate, extend, duplicate/drop a segment, splice two messages, swap armor words, whitespace/'>' insertion, header/footer edits, alphabet violation, length-prefix extremes, digit edits, whole-message replacement); a case is one (entry, fault, outcome); non-trivial when the fault changed the bytes; panics are caught at the step boundary, allocation is counted per step, a real-time watchdog turns a hang into an abnormal death with a journal".into(),
		"C10" => "slates taken from a seeded history between 3 wallets are packed by a sender for recipient sets of size 0 (plain armor) to 4 drawn from all wallets' addresses at derivation indices 0..3; each message is delivered to every recipient, misdelivered to every other (wallet, index) identity in the world and to a keyless reader, its raw bytes are searched for the binary and JSON slate, participant keys and the sender address, its armored text is edited (character changed / dropped / inserted / transposed, 16 or 40 edits) and its encrypted payload is bit-flipped and re-armored with a recomputed checksum; a case is one recipient read / misdelivery / text edit / payload edit; misdeliveries and edits are the non-trivial ones".into(),
		"C20" => "a seeded history (wallets kept stale: blocks mined and transactions confirmed on the node that the wallet has not looked at yet) brings a wallet to a pre-state with several pending transactions; a scenario is T0 (one full update_wallet_state pass, a scan, or the wallet's own updater thread started with start_updater, adopted by the scheduler at its first lock section and stopped with stop_updater once the operations are done) plus 1..3 owner/foreign operations (init, lock, receive, finalize, cancel, post, and the invoice steps issue, pay, reserve, finalize by the payee) on that wallet; from one directory snapshot every serial order of the tasks is executed (<= 4! orders) to obtain the set of serial outcomes under a canonical projection (for the updater thread: every order of the operations x an updater pass or none before each x a final pass), then 14 (quick) / 40 (thorough) interleavings are executed as real threads under the baton scheduler (alternating uniform-random and PCT-style priority schedules; yield points are the wallet-lock acquisitions and node calls outside lock scopes) and each end state must be in the serial set (tier 1). About a third of the scenarios also switch the active account inside the window. Tier 2: a third of the scenarios put node events (a block, the node going down or up) inside the window, and a scripted 'TTL race' (send with a time-to-live finalized while a refresh runs and the cutoff block arrives) is run under a hand-biased schedule prefix; these are executed once for real (the chain is not rolled back) and judged by completed effects: whatever an operation that returned Ok recorded (entry type, final kernel excess, proof signature, reservation, context) is still there at the end, and no hang. evaluations = interleavings executed, distinct_nontrivial = distinct schedules (choice lists) per scenario".into(),
		_ => "seeded histories".into(),
	}
}

pub fn assumptions(id: &str) -> Vec<String> {
	let mut v = vec![
		"a committed LMDB transaction is the atomic durable unit (storage below LMDB is not simulated)".to_owned(),
		"one run = one fresh process = one seed; the simulator is the only source of transport, node availability, time, entropy, crashes".to_owned(),
		"sampling, not proof: a clean batch is evidence for the histories explored only".to_owned(),
	];
	match id {
		"C04" => v.push("histories with a transaction cancelled by one party and broadcast, or with a reorg, are recognised by the DealBook and not judged until a scan completes (C16/C18)".into()),
		_ => {}
	}
	v
}
