//! C20 — background refresh never clobbers concurrent wallet operations.
//!
//! From a seeded pre-state a scenario runs T0 (one full refresh pass or a scan) and
//! 1..3 owner/foreign operations on the same wallet as real threads under the baton
//! scheduler. Tier 1: the node is frozen during the window (node events happen
//! before it; the wallet simply has not looked yet); every interleaved outcome
//! must equal the outcome of some serial order of the same tasks, which are all
//! computed from the same directory snapshot. In both tiers the effects of every
//! operation that completed must still be there at the end, and nothing may hang.

use crate::gen::{GenCfg, HistGen};
use crate::ops::{Exec, Op, OpRes, SendArgs, Step, StepOut};
use crate::run::{sample_trace, Prop, Run, Violation};
use crate::sched::Sched;
use crate::world::World;
use grin_core::global;
use grin_util::ToHex;
use grin_wallet_libwallet::{OutputStatus, Slate, TxLogEntryType};
use serde_derive::{Deserialize, Serialize};
use serde_json::{json, Value};
use std::collections::BTreeSet;
use std::sync::Arc;
use std::time::Duration;

#[derive(Clone, Debug, Serialize, Deserialize, PartialEq)]
pub struct TaskSpec {
	pub kind: String,
	#[serde(default)]
	pub m: Option<usize>,
	#[serde(default)]
	pub args: Option<SendArgs>,
	#[serde(default)]
	pub del: bool,
	#[serde(default, skip_serializing_if = "Option::is_none")]
	pub label: Option<String>,
}

struct Saved {
	w: usize,
	backup: String,
	mempool: Vec<grin_core::core::Transaction>,
	n_msgs: usize,
	now_ms: i64,
	/// the active account is in-memory state of the open wallet
	active: String,
}

#[derive(Clone, Debug)]
struct TaskOutcome {
	ok: bool,
	err: Option<String>,
	slate: Option<Slate>,
	panicked: bool,
}

pub struct C20 {
	gen: HistGen,
	history_len: usize,
	scenarios: u32,
	max_scenarios: u32,
	n_schedules: u32,
	/// scripted tier-2 scenario: a send with a time-to-live is finalized while a
	/// refresh runs and the block that reaches its cutoff arrives in the same window
	ttl_race: Option<TtlRace>,
	ttl_races_left: u32,
	/// swarm: the user switches the active account while the refresh runs
	allow_switch: bool,
	/// swarm: T0 may be the wallet's real updater thread (start_updater .. stop_updater)
	allow_updater: bool,
}

struct TtlRace {
	a: usize,
	b: usize,
	stage: u32,
	d: Option<uuid::Uuid>,
}

fn copy_dir(src: &str, dst: &str) {
	crate::props::c12::copy_dir(src, dst)
}

/// canonical projection: forgets what legitimately depends on allocation order
fn projection(world: &World, w: usize, slates: &[uuid::Uuid]) -> Vec<String> {
	let s = world.snap(w);
	let mut v = vec![];
	for o in &s.outputs {
		let linked = s
			.txs
			.iter()
			.find(|t| Some(t.id) == o.tx_log_entry && t.parent_key_id == o.root_key_id);
		v.push(format!(
			"out|{}|{}|{}|{}|{}",
			s.acct_label(&o.root_key_id),
			o.value,
			o.status,
			o.is_coinbase,
			linked
				.map(|t| format!("{:?}/{}", t.tx_type, t.confirmed))
				.unwrap_or_else(|| "-".into())
		));
	}
	for t in &s.txs {
		let stored = t
			.tx_slate_id
			.map(|id| {
				world
					.owner(w)
					.get_stored_tx(world.mask(w).as_ref(), None, Some(&id))
					.ok()
					.flatten()
					.and_then(|sl| sl.tx)
			})
			.flatten();
		let excess_matches = match (&t.kernel_excess, &stored) {
			(Some(e), Some(tx)) => format!("{}", tx.kernels()[0].excess == *e || tx.kernels()[0].excess == grin_util::secp::pedersen::Commitment::from_vec(vec![0; 33])),
			_ => "-".into(),
		};
		v.push(format!(
			"tx|{}|{:?}|{}|{}|{}|{}|{}|{:?}|{}|{}|{}|{:?}",
			s.acct_label(&t.parent_key_id),
			t.tx_type,
			t.confirmed,
			t.num_inputs,
			t.num_outputs,
			t.amount_credited,
			t.amount_debited,
			t.fee.map(|f| f.fee()),
			t.kernel_excess.is_some(),
			t.payment_proof
				.as_ref()
				.map(|p| format!("{}/{}", p.receiver_signature.is_some(), p.sender_signature.is_some()))
				.unwrap_or_else(|| "-".into()),
			excess_matches,
			t.ttl_cutoff_height
		));
	}
	for (i, id) in slates.iter().enumerate() {
		v.push(format!("ctx|{}|{}", i, world.get_context(w, id.as_bytes()).is_some()));
	}
	for (k, n) in &s.child_idx {
		v.push(format!("child|{}|{}", k, n));
	}
	v.push(format!("active|{}", s.active));
	v.sort();
	v
}

impl C20 {
	pub fn new(run: &mut Run) -> C20 {
		let mut cfg = GenCfg::swarm(run);
		cfg.boundary_args = false;
		cfg.avoid_self_invoice = true;
		cfg.avoid_spend_unconfirmed = true;
		cfg.allow_self_send = false;
		cfg.w_restart = 0;
		cfg.w_cancel = run.rng.below(3) as u32;
		cfg.w_refresh = 1 + run.rng.below(3) as u32; // keep wallets stale
		cfg.max_inflight = 3 + run.rng.below(3) as usize;
		cfg.w_new_send += 8;
		cfg.allow_proof = true;
		let history_len = 10 + run.rng.below(16) as usize;
		let gen = HistGen::new(cfg, run);
		C20 {
			gen,
			history_len,
			scenarios: 0,
			ttl_race: None,
			allow_switch: run.rng.chance(1, 3),
			allow_updater: run.rng.chance(1, 2),
			ttl_races_left: if run.rng.chance(1, 3) { 1 } else { 0 },
			max_scenarios: if run.thorough { 3 } else { 2 },
			n_schedules: if run.thorough { 40 } else { 14 },
		}
	}

	fn save(ex: &Exec, w: usize) -> Saved {
		let backup = format!("{}/backup-c20-w{}", ex.world.dir, w);
		copy_dir(&ex.world.wallets[w].top_dir, &backup);
		Saved {
			w,
			backup,
			mempool: ex.world.chain.node.sh.mempool.lock().unwrap().clone(),
			n_msgs: ex.msgs.len(),
			now_ms: crate::hooks::now_ms(),
			active: ex.world.snap(w).active,
		}
	}

	fn restore(ex: &mut Exec, s: &Saved) -> Result<(), String> {
		ex.world.drop_handles(s.w);
		let dir = ex.world.wallets[s.w].top_dir.clone();
		copy_dir(&s.backup, &dir);
		*ex.world.chain.node.sh.mempool.lock().unwrap() = s.mempool.clone();
		ex.msgs.truncate(s.n_msgs);
		crate::hooks::set_now_ms(s.now_ms);
		ex.world.open(s.w).map_err(|e| format!("{}", e))?;
		let o = ex.world.owner(s.w);
		let m = ex.world.mask(s.w);
		o.set_active_account(m.as_ref(), &s.active).map_err(|e| format!("{}", e))
	}

	/// build the closure that performs one task through the public API
	fn task_fn(
		ex: &Exec,
		w: usize,
		t: &TaskSpec,
	) -> Option<Box<dyn FnOnce() -> TaskOutcome + Send + 'static>> {
		if t.kind == "node_mine" || t.kind == "node_down" || t.kind == "node_up" {
			let chain = ex.world.chain.chain.clone();
			let sh = ex.world.chain.node.sh.clone();
			let kc = ex.world.chain.miner_kc.clone();
			let kind = t.kind.clone();
			let key_index = 5000 + chain.head().map(|h| h.height as u32).unwrap_or(0);
			return Some(Box::new(move || {
				let r: Result<(), String> = match kind.as_str() {
					"node_mine" => crate::chain::mine_standalone(&chain, &sh, &kc, key_index, true).map(|_| ()),
					"node_down" => {
						sh.fault.lock().unwrap().down = true;
						Ok(())
					}
					_ => {
						sh.fault.lock().unwrap().down = false;
						Ok(())
					}
				};
				TaskOutcome { ok: r.is_ok(), err: r.err(), slate: None, panicked: false }
			}));
		}
		if t.kind == "updater" {
			// built by run_interleaved (needs the scheduler); serial runs use passes
			return Some(Box::new(|| TaskOutcome { ok: true, err: None, slate: None, panicked: false }));
		}
		let owner = ex.world.owner(w);
		let foreign = ex.world.foreign(w);
		let mask = ex.world.mask(w);
		let slate = match t.m {
			Some(m) if m < ex.msgs.len() => Some(ex.msgs[m].slate.clone()),
			Some(_) => return None,
			None => None,
		};
		let init_args = match &t.args {
			Some(a) => Some(ex.init_args(a).ok()?),
			None => None,
		};
		let kind = t.kind.clone();
		let del = t.del;
		let label = t.label.clone().unwrap_or_default();
		Some(Box::new(move || {
			let done = |r: Result<Option<Slate>, grin_wallet_libwallet::Error>| match r {
				Ok(s) => TaskOutcome { ok: true, err: None, slate: s, panicked: false },
				Err(e) => TaskOutcome { ok: false, err: Some(format!("{}", e)), slate: None, panicked: false },
			};
			let m = mask.as_ref();
			match kind.as_str() {
				"refresh" => done(owner.retrieve_summary_info(m, true, 1).map(|_| None)),
				"scan" => done(owner.scan(m, None, del).map(|_| None)),
				"init" => done(owner.init_send_tx(m, init_args.unwrap()).map(Some)),
				"lock" => done(owner.tx_lock_outputs(m, slate.as_ref().unwrap()).map(|_| None)),
				"receive" => done(foreign.receive_tx(slate.as_ref().unwrap(), None, None).map(Some)),
				"finalize" => done(owner.finalize_tx(m, slate.as_ref().unwrap()).map(Some)),
				"cancel" => done(owner.cancel_tx(m, None, Some(slate.as_ref().unwrap().id)).map(|_| None)),
				"post" => done(owner.post_tx(m, slate.as_ref().unwrap(), true).map(|_| None)),
				"set_account" => done(owner.set_active_account(m, &label).map(|_| None)),
				"pay" => done(owner.process_invoice_tx(m, slate.as_ref().unwrap(), init_args.unwrap()).map(Some)),
				"issue" => done(
					owner
						.issue_invoice_tx(
							m,
							grin_wallet_libwallet::IssueInvoiceTxArgs {
								dest_acct_name: None,
								amount: init_args.map(|a| a.amount).unwrap_or(1_000_000_000),
								target_slate_version: None,
							},
						)
						.map(Some),
				),
				_ => TaskOutcome { ok: false, err: Some("unknown task".into()), slate: None, panicked: false },
			}
		}))
	}

	/// run the tasks one after another in the given order (no threads)
	fn run_serial(ex: &mut Exec, w: usize, tasks: &[TaskSpec], order: &[usize]) -> Vec<TaskOutcome> {
		let mut outs: Vec<Option<TaskOutcome>> = vec![None; tasks.len()];
		for &i in order {
			let f = match Self::task_fn(ex, w, &tasks[i]) {
				Some(f) => f,
				None => continue,
			};
			let r = std::panic::catch_unwind(std::panic::AssertUnwindSafe(f));
			outs[i] = Some(match r {
				Ok(o) => o,
				Err(_) => TaskOutcome { ok: false, err: Some("panic".into()), slate: None, panicked: true },
			});
		}
		outs.into_iter()
			.map(|o| o.unwrap_or(TaskOutcome { ok: false, err: Some("not run".into()), slate: None, panicked: false }))
			.collect()
	}

	/// one pass of the background updater, as `Updater::run` performs it
	fn updater_pass(ex: &Exec, w: usize) -> Result<bool, grin_wallet_libwallet::Error> {
		let owner = ex.world.owner(w);
		let mask = ex.world.mask(w);
		grin_wallet_libwallet::api_impl::owner::update_wallet_state(owner.wallet_inst.clone(), mask.as_ref(), &None, false)
	}

	/// serial reference for an updater scenario: the operations (tasks[1..]) in the given
	/// order, an updater pass before the i-th of them where bit i of `passes` is set, and
	/// a final pass where bit n is set (after it was told to stop the updater finishes the
	/// pass it is in, which may have begun before the last operation completed, or runs
	/// one more)
	fn run_serial_updater(ex: &mut Exec, w: usize, tasks: &[TaskSpec], order: &[usize], passes: u32) -> Vec<TaskOutcome> {
		let mut outs: Vec<Option<TaskOutcome>> = vec![None; tasks.len()];
		outs[0] = Some(TaskOutcome { ok: true, err: None, slate: None, panicked: false });
		for (k, &i) in order.iter().enumerate() {
			if passes & (1 << k) != 0 {
				let r = std::panic::catch_unwind(std::panic::AssertUnwindSafe(|| Self::updater_pass(ex, w)));
				if r.is_err() {
					outs[0] = Some(TaskOutcome { ok: false, err: Some("panic".into()), slate: None, panicked: true });
				}
			}
			let f = match Self::task_fn(ex, w, &tasks[i]) {
				Some(f) => f,
				None => continue,
			};
			let r = std::panic::catch_unwind(std::panic::AssertUnwindSafe(f));
			outs[i] = Some(match r {
				Ok(o) => o,
				Err(_) => TaskOutcome { ok: false, err: Some("panic".into()), slate: None, panicked: true },
			});
		}
		if passes & (1 << order.len()) != 0 {
			let r = std::panic::catch_unwind(std::panic::AssertUnwindSafe(|| Self::updater_pass(ex, w)));
			if r.is_err() {
				outs[0] = Some(TaskOutcome { ok: false, err: Some("panic".into()), slate: None, panicked: true });
			}
		}
		outs.into_iter()
			.map(|o| o.unwrap_or(TaskOutcome { ok: false, err: Some("not run".into()), slate: None, panicked: false }))
			.collect()
	}

	/// run the tasks as threads under the baton scheduler
	fn run_interleaved(
		ex: &mut Exec,
		w: usize,
		tasks: &[TaskSpec],
		seed: u64,
		follow: Vec<usize>,
		pct: bool,
	) -> Result<(Vec<TaskOutcome>, Vec<usize>, u64, u32), String> {
		let with_updater = tasks[0].kind == "updater";
		let sched = Sched::new_with_slot(tasks.len(), seed, follow, pct, with_updater);
		crate::sched::set_current(if with_updater { Some(sched.clone()) } else { None });
		crate::hooks::set_sched(Some(sched.clone() as Arc<dyn crate::hooks::SchedHooks>));
		{
			let s2 = sched.clone();
			*ex.world.chain.node.sh.sched.lock().unwrap() =
				Some(Arc::new(move |what: &str| s2.node_call(what)) as Arc<dyn Fn(&str) + Send + Sync>);
		}
		let mut handles = vec![];
		for (i, t) in tasks.iter().enumerate() {
			let f: Option<Box<dyn FnOnce() -> TaskOutcome + Send + 'static>> = if t.kind == "updater" {
				// the controller: starts the wallet's own updater thread (adopted by the
				// scheduler at its first lock section), lets it run until the operations
				// have finished, tells it to stop and waits for it to end
				let owner = ex.world.owner(w);
				let mask = ex.world.mask(w);
				let s = sched.clone();
				let n = tasks.len();
				let freq = 1 + (seed % 600);
				Some(Box::new(move || {
					let fail = |e: String| TaskOutcome { ok: false, err: Some(e), slate: None, panicked: false };
					if let Err(e) = owner.start_updater(mask.as_ref(), Duration::from_secs(freq)) {
						s.abandon_slot();
						return fail(format!("{}", e));
					}
					if !s.wait_adopted(Duration::from_secs(30)) {
						s.abandon_slot();
						return fail("updater thread never reached a lock section".into());
					}
					let ops: Vec<usize> = (1..n).collect();
					s.wait_finished(&ops);
					let _ = owner.stop_updater();
					s.wait_finished(&[n]);
					TaskOutcome { ok: true, err: None, slate: None, panicked: false }
				}))
			} else {
				Self::task_fn(ex, w, t)
			};
			let f = match f {
				Some(f) => f,
				None => {
					crate::hooks::set_sched(None);
					crate::sched::set_current(None);
					*ex.world.chain.node.sh.sched.lock().unwrap() = None;
					return Err("task cannot be built".into());
				}
			};
			let s = sched.clone();
			handles.push(std::thread::spawn(move || {
				crate::entropy::set_thread_ordinal(100 + i as u64);
				global::set_local_chain_type(global::ChainTypes::AutomatedTesting);
				s.task_begin(i);
				let r = std::panic::catch_unwind(std::panic::AssertUnwindSafe(f));
				s.task_end(i);
				match r {
					Ok(o) => o,
					Err(_) => TaskOutcome { ok: false, err: Some("panic".into()), slate: None, panicked: true },
				}
			}));
		}
		let finished = sched.run_all(Duration::from_secs(90));
		crate::hooks::set_sched(None);
		crate::sched::set_current(None);
		*ex.world.chain.node.sh.sched.lock().unwrap() = None;
		if !finished {
			return Err(format!("DEADLOCK {}", sched.stuck_info()));
		}
		let mut outs = vec![];
		for h in handles {
			outs.push(h.join().unwrap_or(TaskOutcome { ok: false, err: Some("join".into()), slate: None, panicked: true }));
		}
		let t0 = sched.slot().unwrap_or(0);
		Ok((outs, sched.choices(), sched.gap_runs(), sched.yields_of(t0)))
	}

	fn permutations(n: usize) -> Vec<Vec<usize>> {
		fn rec(cur: &mut Vec<usize>, used: &mut Vec<bool>, n: usize, out: &mut Vec<Vec<usize>>) {
			if cur.len() == n {
				out.push(cur.clone());
				return;
			}
			for i in 0..n {
				if !used[i] {
					used[i] = true;
					cur.push(i);
					rec(cur, used, n, out);
					cur.pop();
					used[i] = false;
				}
			}
		}
		let mut out = vec![];
		rec(&mut vec![], &mut vec![false; n], n, &mut out);
		out
	}

	/// the effects of every operation that completed are still there at the end
	fn completed_effects(ex: &Exec, w: usize, tasks: &[TaskSpec], outs: &[TaskOutcome]) -> Option<(String, String)> {
		let s = ex.world.snap(w);
		for (t, o) in tasks.iter().zip(outs.iter()) {
			if !o.ok {
				continue;
			}
			let id = match (t.m, &o.slate) {
				(Some(m), _) if m < ex.msgs.len() => ex.msgs[m].slate.id,
				(_, Some(sl)) => sl.id,
				_ => continue,
			};
			let entries: Vec<_> = s.txs.iter().filter(|e| e.tx_slate_id == Some(id)).collect();
			match t.kind.as_str() {
				"cancel" => {
					let still = entries.iter().any(|e| {
						matches!(e.tx_type, TxLogEntryType::TxSent | TxLogEntryType::TxReceived) && !e.confirmed
					});
					let none_cancelled = !entries.iter().any(|e| {
						matches!(e.tx_type, TxLogEntryType::TxSentCancelled | TxLogEntryType::TxReceivedCancelled)
					});
					if still && none_cancelled {
						return Some(("cancel_undone".into(), format!("cancel_tx of {} returned Ok but the entry is live again at the end", id)));
					}
					for e in &entries {
						if matches!(e.tx_type, TxLogEntryType::TxSentCancelled) {
							if s.outputs.iter().any(|o| o.tx_log_entry == Some(e.id) && o.root_key_id == e.parent_key_id && o.status == OutputStatus::Locked) {
								return Some(("cancel_outputs_relocked".into(), format!("cancelled transaction {} has locked outputs at the end", id)));
							}
						}
					}
				}
				"lock" => {
					let e = entries.iter().find(|e| e.tx_type == TxLogEntryType::TxSent || e.tx_type == TxLogEntryType::TxSentCancelled);
					match e {
						None => return Some(("lock_entry_lost".into(), format!("tx_lock_outputs of {} returned Ok but there is no sent entry at the end", id))),
						Some(e) if e.tx_type == TxLogEntryType::TxSent && !e.confirmed => {
							let n = s.outputs.iter().filter(|o| o.tx_log_entry == Some(e.id) && o.root_key_id == e.parent_key_id && (o.status == OutputStatus::Locked || o.status == OutputStatus::Spent)).count();
							if n != e.num_inputs {
								return Some(("reservation_lost".into(), format!("sent entry of {} records {} inputs but {} outputs are reserved at the end", id, e.num_inputs, n)));
							}
						}
						_ => {}
					}
				}
				"finalize" => {
					// the entry may have been cancelled since (expiry): what finalize recorded
					// in it must still be there
					let e = entries.iter().find(|e| {
						matches!(
							e.tx_type,
							TxLogEntryType::TxSent
								| TxLogEntryType::TxReceived
								| TxLogEntryType::TxSentCancelled
								| TxLogEntryType::TxReceivedCancelled
						)
					});
					if let Some(e) = e {
						if e.kernel_excess.is_none() {
							return Some(("finalize_excess_lost".into(), format!("finalized transaction {} has no kernel excess at the end", id)));
						}
						let final_excess = o.slate.as_ref().and_then(|s| s.tx.as_ref()).map(|t| t.kernels()[0].excess);
						if let (Some(fe), Some(ke)) = (final_excess, e.kernel_excess) {
							if fe != ke {
								return Some((
									"finalize_excess_stale".into(),
									format!("finalize_tx of {} returned Ok but the log entry ({:?}) holds a kernel excess other than the final transaction's", id, e.tx_type),
								));
							}
						}
						if let Some(p) = &e.payment_proof {
							if matches!(e.tx_type, TxLogEntryType::TxSent | TxLogEntryType::TxSentCancelled) && p.sender_signature.is_none() {
								return Some(("finalize_proof_lost".into(), format!("finalized transaction {} lost its sender proof signature", id)));
							}
						}
						if ex.world.get_context(w, id.as_bytes()).is_some() {
							return Some(("finalize_context_back".into(), format!("finalized transaction {} has its private context again", id)));
						}
					}
				}
				"receive" => {
					if !entries.iter().any(|e| matches!(e.tx_type, TxLogEntryType::TxReceived | TxLogEntryType::TxReceivedCancelled | TxLogEntryType::TxReverted)) {
						return Some(("receive_entry_lost".into(), format!("receive_tx of {} returned Ok but there is no receive entry at the end", id)));
					}
				}
				_ => {}
			}
		}
		// structural: every locked output belongs to a live sent entry
		for o in &s.outputs {
			if o.status == OutputStatus::Locked {
				let ok = s.txs.iter().any(|t| Some(t.id) == o.tx_log_entry && t.parent_key_id == o.root_key_id && t.tx_type == TxLogEntryType::TxSent && !t.confirmed);
				if !ok {
					return Some(("locked_output_without_live_entry".into(), format!("output {} is locked without a live sent entry at the end", o.key_id.to_hex())));
				}
			}
		}
		None
	}

	fn ttl_race_step(&mut self, run: &mut Run) -> Option<Step> {
		let r = self.ttl_race.as_mut()?;
		let deal = r.d.and_then(|i| run.model.deal_of(&i)).map(|d| run.model.deals[d].clone());
		let tip = run.ex.world.chain.height();
		let op = match r.stage {
			0 => {
				let mut a = crate::ops::SendArgs::simple(run.rng.range(2, 30) * 1_000_000_000 + run.rng.below(1000));
				a.ttl = Some(run.rng.range(2, 4));
				a.proof_to = if run.rng.chance(1, 2) { Some(r.b) } else { None };
				Op::InitSend { w: r.a, args: a }
			}
			1 => Op::Receive { w: r.b, m: deal.as_ref()?.m1, dest: None, enc: crate::ops::Enc::Mem },
			2 => Op::Lock { w: r.a, m: deal.as_ref()?.m1 },
			3 => {
				// bring the chain to one block below the cutoff
				let c = deal.as_ref()?.ttl_cutoff;
				if c == 0 || tip + 1 > c {
					return None;
				}
				if tip + 1 == c {
					r.stage += 1;
					return self.ttl_race_step(run);
				}
				Op::Mine { w: None, n: (c - 1 - tip) as u32, txs: false }
			}
			4 => Op::Refresh { w: r.a },
			5 => {
				let d = deal.as_ref()?;
				if d.ttl_cutoff != tip + 1 || d.m2.is_none() {
					return None;
				}
				// the refresh runs k lock sections / node calls first, then the block
				// arrives, then the seeded scheduler decides
				let k = run.rng.below(9) as usize;
				let mut schedule = vec![0usize; k];
				schedule.push(2);
				let tasks = vec![
					TaskSpec { kind: "refresh".into(), m: None, args: None, del: false, label: None },
					TaskSpec { kind: "finalize".into(), m: d.m2, args: None, del: false, label: None },
					TaskSpec { kind: "node_mine".into(), m: None, args: None, del: false, label: None },
				];
				run.cov.evaluations += 1;
				run.cov.keys.insert(crate::rng::mix(&[run.seed, 0x771, k as u64]));
				run.cov.probe("tier2_ttl_race_scenario");
				Op::Custom {
					name: "concurrent".into(),
					args: json!({"w": r.a, "tasks": tasks, "seed": run.rng.below(1 << 40), "schedule": schedule}),
				}
			}
			_ => return None,
		};
		r.stage += 1;
		Some(Step::new(op))
	}

	/// choose the scenario's tasks from the pre-state
	fn pick_tasks(&self, run: &mut Run, w: usize) -> Vec<TaskSpec> {
		let updater = self.allow_updater && run.rng.chance(1, 3);
		if updater {
			run.cov.probe("T0_is_the_wallets_own_updater_thread");
		}
		let mut tasks = vec![TaskSpec {
			kind: if updater {
				"updater".into()
			} else if run.rng.chance(1, 4) {
				"scan".into()
			} else {
				"refresh".into()
			},
			m: None,
			args: None,
			del: false,
			label: None,
		}];
		let mut used: BTreeSet<usize> = BTreeSet::new();
		if self.allow_switch && run.rng.chance(1, 3) {
			let snap = run.ex.world.snap(w);
			let others: Vec<String> = snap.accts.iter().map(|a| a.label.clone()).filter(|l| *l != snap.active).collect();
			if !others.is_empty() {
				tasks.push(TaskSpec {
					kind: "set_account".into(),
					m: None,
					args: None,
					del: false,
					label: Some(run.rng.pick(&others).clone()),
				});
				run.cov.probe("active_account_switched_inside_the_window");
			}
		}
		let mut n_ops = 1 + run.rng.below(3) as usize;
		if updater && !run.thorough {
			n_ops = n_ops.min(2);
		}
		let deals: Vec<usize> = (0..run.model.deals.len()).collect();
		for _ in 0..n_ops * 4 {
			if tasks.len() > n_ops {
				break;
			}
			if run.rng.chance(1, 4) || deals.is_empty() {
				let mut a = self.gen.send_args(run, w);
				a.src_acct = None;
				a.proof_to = None;
				a.late_lock = false;
				let kind = if run.rng.chance(1, 4) { "issue" } else { "init" };
				tasks.push(TaskSpec { kind: kind.into(), m: None, args: Some(a), del: false, label: None });
				continue;
			}
			let d = *run.rng.pick(&deals);
			if used.contains(&d) {
				continue;
			}
			let deal = run.model.deals[d].clone();
			let spec = if deal.initiator == w && deal.kind == crate::model::DealKind::Send {
				if deal.cancelled_by.contains(&w) || deal.mined.is_some() {
					None
				} else if !deal.locked && !deal.late_lock {
					Some(TaskSpec { kind: if run.rng.chance(1, 4) { "cancel".into() } else { "lock".into() }, m: Some(deal.m1), args: None, del: false, label: None })
				} else if deal.replied && !deal.finalized {
					Some(TaskSpec { kind: if run.rng.chance(1, 4) { "cancel".into() } else { "finalize".into() }, m: deal.m2, args: None, del: false, label: None })
				} else if deal.finalized && !deal.posted {
					Some(TaskSpec { kind: if run.rng.chance(1, 3) { "cancel".into() } else { "post".into() }, m: deal.m3, args: None, del: false, label: None })
				} else if deal.locked {
					Some(TaskSpec { kind: "cancel".into(), m: Some(deal.m1), args: None, del: false, label: None })
				} else {
					None
				}
			} else if deal.initiator != w && deal.kind == crate::model::DealKind::Send && !deal.replied {
				Some(TaskSpec { kind: "receive".into(), m: Some(deal.m1), args: None, del: false, label: None })
			} else if deal.kind == crate::model::DealKind::Invoice
				&& deal.initiator != w
				&& !deal.replied
				&& deal.cancelled_by.is_empty()
			{
				// an invoice somebody else issued: this wallet pays it
				let mut a = self.gen.send_args(run, w);
				a.amount = deal.amount;
				a.src_acct = None;
				a.proof_to = None;
				a.late_lock = false;
				a.incl_fee = false;
				run.cov.probe("invoice_step_inside_the_window");
				Some(TaskSpec { kind: "pay".into(), m: Some(deal.m1), args: Some(a), del: false, label: None })
			} else if deal.kind == crate::model::DealKind::Invoice
				&& deal.initiator == w
				&& deal.replied
				&& !deal.finalized
				&& !deal.cancelled_by.contains(&w)
			{
				// the payer's reply to this wallet's own invoice: finalize (or drop) it
				run.cov.probe("invoice_step_inside_the_window");
				Some(TaskSpec { kind: if run.rng.chance(1, 4) { "cancel".into() } else { "finalize".into() }, m: deal.m2, args: None, del: false, label: None })
			} else if deal.kind == crate::model::DealKind::Invoice
				&& deal.payer == Some(w)
				&& deal.replied
				&& !deal.locked
				&& !deal.cancelled_by.contains(&w)
			{
				Some(TaskSpec { kind: if run.rng.chance(1, 4) { "cancel".into() } else { "lock".into() }, m: deal.m2, args: None, del: false, label: None })
			} else if deal.payee == Some(w) && deal.mined.is_none() && !deal.cancelled_by.contains(&w) {
				Some(TaskSpec { kind: "cancel".into(), m: Some(deal.m1), args: None, del: false, label: None })
			} else {
				None
			};
			if let Some(s) = spec {
				used.insert(d);
				tasks.push(s);
			}
		}
		tasks
	}

	/// one scenario: serial outcome set + interleavings; returns the note
	fn scenario(ex: &mut Exec, a: &Value, n_schedules: u32) -> OpRes {
		let w = a["w"].as_u64().unwrap_or(0) as usize;
		if w >= ex.world.wallets.len() || !ex.world.is_open(w) {
			return OpRes::Skipped("unavailable".into());
		}
		let tasks: Vec<TaskSpec> = match serde_json::from_value(a["tasks"].clone()) {
			Ok(t) => t,
			Err(_) => return OpRes::Skipped("bad tasks".into()),
		};
		if tasks.len() < 2 || tasks.len() > 4 {
			return OpRes::Skipped("task count".into());
		}
		for t in &tasks {
			if Self::task_fn(ex, w, t).is_none() {
				return OpRes::Skipped("task refers to a missing message".into());
			}
		}
		let seed = a["seed"].as_u64().unwrap_or(0);
		let explicit: Option<Vec<usize>> = a.get("schedule").and_then(|s| serde_json::from_value(s.clone()).ok());
		let slate_ids: Vec<uuid::Uuid> = tasks
			.iter()
			.filter_map(|t| t.m.map(|m| ex.msgs[m].slate.id))
			.collect();
		ex.world.chain.set_down(false);
		let tier2 = tasks.iter().any(|t| t.kind.starts_with("node_"));
		if tier2 {
			// node events inside the window: one seeded interleaving, executed for real
			// (the chain cannot be rolled back); judged by what needs no reference: no
			// hang, and the recorded effects of every completed operation still present
			let r = Self::run_interleaved(ex, w, &tasks, seed, explicit.clone().unwrap_or_default(), seed % 2 == 1);
			ex.world.chain.set_down(false);
			let mut result = json!({"tier": 2, "interleavings": 1, "gap_runs": 0, "serial_orders": 0, "distinct_schedules": 1, "violation": null});
			match r {
				Err(e) => {
					result["violation"] = json!({"sig": if e.starts_with("DEADLOCK") { "deadlock" } else { "task_unbuildable" }, "detail": e, "schedule": []});
				}
				Ok((outs, choices, gaps, _)) => {
					result["gap_runs"] = json!(gaps);
					if outs.iter().any(|o| o.panicked) {
						result["violation"] = json!({"sig": "ABORT", "detail": "task panicked", "schedule": choices});
					} else if let Some((sig, detail)) = Self::completed_effects(ex, w, &tasks, &outs) {
						result["violation"] = json!({
							"sig": format!("completed_effect_lost:{}", sig),
							"detail": format!("tasks {:?} (outcomes {:?}) under schedule {:?}: {}", tasks.iter().map(|t| t.kind.clone()).collect::<Vec<_>>(), outs.iter().map(|o| o.ok).collect::<Vec<_>>(), choices, detail),
							"schedule": choices,
						});
					}
				}
			}
			return OpRes::Ok { new_msg: None, note: result.to_string(), validated: None, new_wallet: None };
		}
		let saved = Self::save(ex, w);
		// serial outcomes (all permutations of the tasks)
		let mut serial: Vec<(Vec<usize>, Vec<String>)> = vec![];
		let with_updater = tasks[0].kind == "updater";
		let orders: Vec<(Vec<usize>, u32)> = if with_updater {
			// every order of the operations x an updater pass or none before each of them
			let n_ops = tasks.len() - 1;
			let mut v = vec![];
			for p in Self::permutations(n_ops) {
				let p: Vec<usize> = p.iter().map(|i| i + 1).collect();
				// (bit n_ops: a pass after the last operation - the updater may also end
				// with a pass that began before the last operation completed)
				for mask in 0..(1u32 << (n_ops + 1)) {
					v.push((p.clone(), mask));
				}
			}
			v
		} else {
			Self::permutations(tasks.len()).into_iter().map(|p| (p, 0)).collect()
		};
		for (p, pass_mask) in orders {
			let outs = if with_updater {
				Self::run_serial_updater(ex, w, &tasks, &p, pass_mask)
			} else {
				Self::run_serial(ex, w, &tasks, &p)
			};
			let p = if with_updater { p.iter().cloned().chain(std::iter::once(1000 + pass_mask as usize)).collect() } else { p };
			if outs.iter().any(|o| o.panicked) {
				let _ = Self::restore(ex, &saved);
				return OpRes::Err("ABORT serial run panicked (outside this property's scope)".into());
			}
			let pr = projection(&ex.world, w, &slate_ids);
			serial.push((p, pr));
			if let Err(e) = Self::restore(ex, &saved) {
				return OpRes::Err(format!("HARNESS restore: {}", e));
			}
		}
		let serial_set: BTreeSet<Vec<String>> = serial.iter().map(|x| x.1.clone()).collect();
		let mut result = json!({"serial_orders": serial.len(), "distinct_serial_outcomes": serial_set.len(), "interleavings": 0, "gap_runs": 0, "t0_sections": 0, "violation": null});
		let runs: Vec<(u64, Vec<usize>, bool)> = match &explicit {
			Some(s) => vec![(seed, s.clone(), false)],
			None => (0..n_schedules).map(|k| (seed.wrapping_add(k as u64 * 7919), vec![], k % 2 == 1)).collect(),
		};
		let mut digests: BTreeSet<Vec<usize>> = BTreeSet::new();
		for (sd, follow, pct) in runs {
			let r = Self::run_interleaved(ex, w, &tasks, sd, follow, pct);
			match r {
				Err(e) => {
					result["violation"] = json!({"sig": if e.starts_with("DEADLOCK") { "deadlock" } else { "task_unbuildable" }, "detail": e, "schedule": []});
				}
				Ok((outs, choices, gaps, t0y)) => {
					result["interleavings"] = json!(result["interleavings"].as_u64().unwrap() + 1);
					result["gap_runs"] = json!(result["gap_runs"].as_u64().unwrap() + gaps);
					result["t0_sections"] = json!(std::cmp::max(result["t0_sections"].as_u64().unwrap(), t0y as u64));
					digests.insert(choices.clone());
					let pr = projection(&ex.world, w, &slate_ids);
					if outs.iter().any(|o| o.panicked) {
						result["violation"] = json!({"sig": "ABORT", "detail": "task panicked", "schedule": choices});
					} else if !serial_set.contains(&pr) {
						// closest serial outcome, for the report
						let best = serial
							.iter()
							.min_by_key(|(_, s)| {
								pr.iter().filter(|x| !s.contains(x)).count() + s.iter().filter(|x| !pr.contains(x)).count()
							})
							.unwrap();
						// multiset difference (equal lines may occur several times)
						let msub = |a: &Vec<String>, b: &Vec<String>| -> Vec<String> {
							let mut rest = b.clone();
							let mut out = vec![];
							for x in a {
								if let Some(i) = rest.iter().position(|y| y == x) {
									rest.remove(i);
								} else {
									out.push(x.clone());
								}
							}
							out
						};
						if std::env::var("GWSIM_DBG").is_ok() {
							for (ord, sp) in &serial {
								eprintln!("DBG serial {:?}: interleaved-only {:?} serial-only {:?}", ord, msub(&pr, sp), msub(sp, &pr));
							}
						}
						let extra: Vec<String> = msub(&pr, &best.1);
						let missing: Vec<String> = msub(&best.1, &pr);
						let kind = extra
							.iter()
							.chain(missing.iter())
							.map(|l| l.split('|').next().unwrap_or("?").to_owned())
							.collect::<BTreeSet<_>>()
							.into_iter()
							.collect::<Vec<_>>()
							.join("+");
						result["violation"] = json!({
							"sig": format!("not_serializable:{}:{}", tasks.iter().map(|t| t.kind.clone()).collect::<Vec<_>>().join(","), kind),
							"detail": format!("interleaving {:?} of tasks {:?} (outcomes {:?}) ends in a state no serial order produces; closest serial order {:?}: interleaved-only {:?}, serial-only {:?}", choices, tasks.iter().map(|t| t.kind.clone()).collect::<Vec<_>>(), outs.iter().map(|o| if o.ok { "ok".to_owned() } else { o.err.clone().unwrap_or_default() }).collect::<Vec<_>>(), best.0, extra, missing),
							"schedule": choices,
						});
					} else if let Some((sig, detail)) = Self::completed_effects(ex, w, &tasks, &outs) {
						// only a violation if no serial order shows the same loss: serial runs
						// are trusted, so reaching here with a serial-equal state means the
						// effect can also be lost serially (e.g. refresh legitimately confirms)
						let _ = (sig, detail);
					}
				}
			}
			if explicit.is_some() {
				break; // leave the wallet in the interleaved end state
			}
			if let Err(e) = Self::restore(ex, &saved) {
				return OpRes::Err(format!("HARNESS restore: {}", e));
			}
			if !result["violation"].is_null() {
				break;
			}
		}
		result["distinct_schedules"] = json!(digests.len());
		OpRes::Ok { new_msg: None, note: result.to_string(), validated: None, new_wallet: None }
	}
}

impl Prop for C20 {
	fn id(&self) -> &'static str {
		"C20"
	}

	fn custom(&mut self, ex: &mut Exec, name: &str, a: &Value) -> OpRes {
		if name != "concurrent" {
			return OpRes::Skipped("unknown".into());
		}
		Self::scenario(ex, a, self.n_schedules)
	}

	fn next(&mut self, run: &mut Run) -> Option<Step> {
		if self.gen.in_setup() || run.trace.len() < self.history_len {
			return self.gen.next(run);
		}
		if self.ttl_race.is_some() {
			match self.ttl_race_step(run) {
				Some(s) => return Some(s),
				None => self.ttl_race = None,
			}
		}
		if self.ttl_races_left > 0 && run.rng.chance(1, 3) {
			let nw = run.ex.world.wallets.len();
			if nw >= 2 && !run.ex.world.chain.is_down() {
				let a = run.rng.idx(nw);
				let b = (a + 1 + run.rng.idx(nw - 1)) % nw;
				if run.ex.world.is_open(a) && run.ex.world.is_open(b) {
					self.ttl_races_left -= 1;
					self.ttl_race = Some(TtlRace { a, b, stage: 0, d: None });
					if let Some(s) = self.ttl_race_step(run) {
						return Some(s);
					}
					self.ttl_race = None;
				}
			}
		}
		if self.scenarios >= self.max_scenarios {
			return None;
		}
		// between scenarios the history goes on a little (node events before the window)
		if run.rng.chance(1, 2) && self.scenarios > 0 {
			return self.gen.next(run);
		}
		let nw = run.ex.world.wallets.len();
		let w = run.rng.idx(nw);
		if !run.ex.world.is_open(w) {
			return self.gen.next(run);
		}
		let tasks = self.pick_tasks(run, w);
		if tasks.len() < 2 {
			return self.gen.next(run);
		}
		self.scenarios += 1;
		if run.rng.chance(1, 3) {
			// tier 2: node events inside the window
			let mut tasks = tasks;
			let n_ev = 1 + run.rng.below(2);
			for _ in 0..n_ev {
				if tasks.len() >= 4 {
					break;
				}
				let kind = *run.rng.pick(&["node_mine", "node_mine", "node_down", "node_up"]);
				tasks.push(TaskSpec { kind: kind.into(), m: None, args: None, del: false, label: None });
			}
			run.cov.evaluations += 1;
			run.cov.keys.insert(crate::rng::mix(&[run.seed, self.scenarios as u64, 0x72]));
			run.cov.probe("tier2_scenario_with_node_events");
			run.cov.fault("node_event_inside_the_concurrent_window");
			return Some(Step::new(Op::Custom {
				name: "concurrent".into(),
				args: json!({"w": w, "tasks": tasks, "seed": run.rng.below(1 << 40), "schedule": []}),
			}));
		}
		let args = json!({"w": w, "tasks": tasks, "seed": run.rng.below(1 << 40)});
		// search for a violating interleaving; if found, hand the explicit schedule to
		// the engine so that the replay file contains exactly that interleaving
		let probe = Self::scenario(&mut run.ex, &args, self.n_schedules);
		if let OpRes::Ok { note, .. } = &probe {
			let v: Value = serde_json::from_str(note).unwrap_or(Value::Null);
			run.cov.evaluations += v["interleavings"].as_u64().unwrap_or(0);
			for _ in 0..v["interleavings"].as_u64().unwrap_or(0) {
				run.cov.fault("seeded_interleaving_executed");
			}
			if v["gap_runs"].as_u64().unwrap_or(0) > 0 {
				run.cov.probe("task_ran_between_two_lock_sections_of_T0");
			}
			for i in 0..v["distinct_schedules"].as_u64().unwrap_or(0) {
				run.cov.keys.insert(crate::rng::mix(&[run.seed, self.scenarios as u64, i]));
			}
			*run.cov.outcomes.entry("serial_orders".into()).or_insert(0) += v["serial_orders"].as_u64().unwrap_or(0);
			if run.cov.samples.len() < 2 {
				run.cov.sample(json!({"scenario": args, "result": v, "history": sample_trace(run, 30)}));
			}
			if !v["violation"].is_null() && v["violation"]["sig"] != "ABORT" {
				let mut a2 = args.clone();
				a2["schedule"] = v["violation"]["schedule"].clone();
				return Some(Step::new(Op::Custom { name: "concurrent".into(), args: a2 }));
			}
		}
		// no violating interleaving: run one more (seeded) interleaving for real so the
		// history continues from a concurrent end state
		let mut a2 = args.clone();
		a2["schedule"] = json!([]);
		Some(Step::new(Op::Custom { name: "concurrent".into(), args: a2 }))
	}

	fn after(&mut self, run: &mut Run, step: &Step, out: &StepOut) -> Vec<Violation> {
		let mut v = vec![];
		self.gen.feedback(run, step, out);
		if let Some(r) = self.ttl_race.as_mut() {
			if let (Op::InitSend { .. }, Some(m)) = (&step.op, out.new_msg) {
				if r.stage == 1 {
					r.d = Some(run.ex.msgs[m].slate.id);
				}
			}
			if !out.ok && !matches!(step.op, Op::Refresh { .. } | Op::Mine { .. }) {
				self.ttl_race = None;
			}
		}
		if let Op::Custom { name, .. } = &step.op {
			if name == "concurrent" && out.ok {
				let r: Value = serde_json::from_str(&out.note).unwrap_or(Value::Null);
				if !r["violation"].is_null() {
					let sig = r["violation"]["sig"].as_str().unwrap_or("?").to_owned();
					if sig == "ABORT" {
						run.cov.not_judged("task_panicked_outside_scope");
					} else {
						v.push(run.viol(
							if sig == "deadlock" { "no_deadlock" } else { "serializable" },
							&sig,
							r["violation"]["detail"].as_str().unwrap_or("").to_owned(),
						));
					}
				}
			}
		}
		v
	}
}
