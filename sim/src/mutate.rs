//! Field-level mutations of slates in transit (corrupting channel / Byzantine peer).

use crate::ops::Exec;
use crate::rng::SimRng;
use grin_core::core::FeeFields;
use grin_keychain::BlindingFactor;
use grin_util::secp::key::{PublicKey, SecretKey};
use grin_util::secp::{self, Signature};
use grin_util::static_secp_instance;
use grin_wallet_libwallet::{ParticipantData, Slate, SlateState};
use std::convert::TryFrom;

pub const SLATE_MUTATIONS: &[&str] = &[
	"amount_plus",
	"amount_minus",
	"amount_zero",
	"amount_set",
	"fee_plus",
	"fee_minus",
	"fee_zero",
	"offset_rand",
	"offset_zero",
	"ttl_set",
	"state_set",
	"id_rand",
	"id_from_other",
	"num_parts",
	"part_key_rand",
	"part_nonce_rand",
	"part_key_other",
	"part_sig_flip",
	"part_sig_drop",
	"part_sig_other",
	"part_drop",
	"part_dup",
	"part_add",
	"part_swap",
	"proof_strip",
	"proof_sig_flip",
	"proof_sig_strip",
	"proof_raddr_rand",
	"proof_saddr_rand",
	"proof_sig_other",
	"proof_resign_other",
	"proof_resign_amount",
	"kernel_features",
	"com_drop",
	"com_dup",
	"com_add_other",
	"com_swap_proof",
	"com_replace_other",
	"com_split_own",
];

fn sk_from(arg: u64) -> SecretKey {
	let secp = static_secp_instance();
	let secp = secp.lock();
	let mut r = SimRng::new(arg ^ 0x5eed);
	loop {
		let b = r.bytes(32);
		if let Ok(k) = SecretKey::from_slice(&secp, &b) {
			return k;
		}
	}
}

fn pk_from(arg: u64) -> PublicKey {
	let sk = sk_from(arg);
	let secp = static_secp_instance();
	let secp = secp.lock();
	PublicKey::from_secret_key(&secp, &sk).unwrap()
}

pub fn dalek_pk_from(arg: u64) -> ed25519_dalek::PublicKey {
	let mut r = SimRng::new(arg ^ 0xda1e);
	let b = r.bytes(32);
	let sk = ed25519_dalek::SecretKey::from_bytes(&b).unwrap();
	(&sk).into()
}

fn flip_sig(s: &Signature, arg: u64) -> Signature {
	let mut raw = s.to_raw_data();
	let i = (arg % 64) as usize;
	raw[i] ^= 1 << ((arg / 64) % 8);
	Signature::from_raw_data(&raw).unwrap_or_else(|_| s.clone())
}

/// Returns None when the mutation does not apply to this slate (then the
/// generator's step is a no-op).
pub fn mutate_slate(ex: &Exec, m: usize, kind: &str, arg: u64) -> Option<Slate> {
	let mut s = ex.msgs[m].slate.clone();
	let np = s.participant_data.len();
	let pi = if np > 0 { (arg as usize) % np } else { 0 };
	match kind {
		"amount_plus" => s.amount = s.amount.checked_add(1 + arg % 1000)?,
		"amount_minus" => s.amount = s.amount.checked_sub(1 + arg % 1000)?,
		"amount_zero" => {
			if s.amount == 0 {
				return None;
			}
			s.amount = 0
		}
		"amount_set" => {
			if s.amount == arg {
				return None;
			}
			s.amount = arg
		}
		"fee_plus" => {
			let f = s.fee_fields.fee().checked_add(1 + arg % 1000)?;
			s.fee_fields = FeeFields::try_from(f).ok()?;
		}
		"fee_minus" => {
			let f = s.fee_fields.fee().checked_sub(1 + arg % 1000)?;
			if f == 0 {
				return None;
			}
			s.fee_fields = FeeFields::try_from(f).ok()?;
		}
		"fee_zero" => {
			if s.fee_fields.fee() == 0 {
				return None;
			}
			s.fee_fields = FeeFields::zero()
		}
		"offset_rand" => {
			s.offset = BlindingFactor::from_secret_key(sk_from(arg));
		}
		"offset_zero" => {
			if s.offset == BlindingFactor::zero() {
				return None;
			}
			s.offset = BlindingFactor::zero()
		}
		"ttl_set" => {
			if s.ttl_cutoff_height == arg {
				return None;
			}
			s.ttl_cutoff_height = arg
		}
		"state_set" => {
			let st = [
				SlateState::Unknown,
				SlateState::Standard1,
				SlateState::Standard2,
				SlateState::Standard3,
				SlateState::Invoice1,
				SlateState::Invoice2,
				SlateState::Invoice3,
			];
			let n = st[(arg % 7) as usize].clone();
			if n == s.state {
				return None;
			}
			s.state = n;
		}
		"id_rand" => {
			let mut r = SimRng::new(arg);
			let b = r.bytes(16);
			s.id = uuid::Uuid::from_slice(&b).ok()?;
		}
		"id_from_other" => {
			let o = (arg as usize) % ex.msgs.len();
			if ex.msgs[o].slate.id == s.id {
				return None;
			}
			s.id = ex.msgs[o].slate.id;
		}
		"num_parts" => {
			let n = (arg % 5) as u8;
			if n == s.num_participants {
				return None;
			}
			s.num_participants = n;
		}
		"part_key_rand" => {
			if np == 0 {
				return None;
			}
			s.participant_data[pi].public_blind_excess = pk_from(arg);
		}
		"part_nonce_rand" => {
			if np == 0 {
				return None;
			}
			s.participant_data[pi].public_nonce = pk_from(arg);
		}
		"part_key_other" => {
			// take a participant entry from another slate on the wire
			if np == 0 {
				return None;
			}
			let o = (arg as usize / 7) % ex.msgs.len();
			let os = &ex.msgs[o].slate;
			if os.id == s.id || os.participant_data.is_empty() {
				return None;
			}
			s.participant_data[pi] = os.participant_data[0].clone();
		}
		"part_sig_flip" => {
			if np == 0 {
				return None;
			}
			let sig = s.participant_data[pi].part_sig.clone()?;
			s.participant_data[pi].part_sig = Some(flip_sig(&sig, arg / 3));
		}
		"part_sig_drop" => {
			if np == 0 {
				return None;
			}
			s.participant_data[pi].part_sig.as_ref()?;
			s.participant_data[pi].part_sig = None;
		}
		"part_sig_other" => {
			if np == 0 {
				return None;
			}
			let o = (arg as usize / 7) % ex.msgs.len();
			let os = &ex.msgs[o].slate;
			let other = os
				.participant_data
				.iter()
				.filter_map(|p| p.part_sig.clone())
				.next()?;
			if Some(other.clone()) == s.participant_data[pi].part_sig {
				return None;
			}
			s.participant_data[pi].part_sig = Some(other);
		}
		"part_drop" => {
			if np == 0 {
				return None;
			}
			s.participant_data.remove(pi);
		}
		"part_dup" => {
			if np == 0 {
				return None;
			}
			let p = s.participant_data[pi].clone();
			s.participant_data.push(p);
		}
		"part_add" => {
			s.participant_data.push(ParticipantData {
				public_blind_excess: pk_from(arg),
				public_nonce: pk_from(arg.wrapping_add(1)),
				part_sig: None,
			});
		}
		"part_swap" => {
			if np < 2 {
				return None;
			}
			s.participant_data.swap(0, 1);
		}
		"proof_strip" => {
			s.payment_proof.as_ref()?;
			s.payment_proof = None;
		}
		"proof_sig_flip" => {
			let p = s.payment_proof.as_mut()?;
			let sig = p.receiver_signature?;
			let mut b = sig.to_bytes();
			b[(arg % 32) as usize] ^= 1 << ((arg / 64) % 8);
			p.receiver_signature = ed25519_dalek::Signature::try_from(&b[..]).ok();
			p.receiver_signature?;
		}
		"proof_sig_strip" => {
			let p = s.payment_proof.as_mut()?;
			p.receiver_signature?;
			p.receiver_signature = None;
		}
		"proof_raddr_rand" => {
			let p = s.payment_proof.as_mut()?;
			p.receiver_address = dalek_pk_from(arg);
		}
		"proof_saddr_rand" => {
			let p = s.payment_proof.as_mut()?;
			p.sender_address = dalek_pk_from(arg);
		}
		"proof_sig_other" => {
			// a valid signature by another key over the same message cannot be made
			// without knowing the excess here; take the signature of another message
			let o = (arg as usize / 7) % ex.msgs.len();
			let other = ex.msgs[o]
				.slate
				.payment_proof
				.as_ref()
				.and_then(|p| p.receiver_signature)?;
			let p = s.payment_proof.as_mut()?;
			if p.receiver_signature == Some(other) {
				return None;
			}
			p.receiver_signature = Some(other);
		}
		"proof_resign_other" => {
			// a Byzantine recipient substitutes its own address and signs the correct
			// message (actual amount, final excess, sender address) with its own key
			use byteorder::{BigEndian, WriteBytesExt};
			use ed25519_dalek::Signer;
			let parent = ex.msgs[m].parent?;
			let s1 = &ex.msgs[parent].slate;
			let p0 = s.payment_proof.clone()?;
			if s1.participant_data.is_empty() || s.participant_data.is_empty() {
				return None;
			}
			let excess = {
				let secp = static_secp_instance();
				let secp = secp.lock();
				let sum = PublicKey::from_combination(
					&secp,
					vec![
						&s1.participant_data[0].public_blind_excess,
						&s.participant_data[0].public_blind_excess,
					],
				)
				.ok()?;
				grin_util::secp::pedersen::Commitment::from_pubkey(&secp, &sum).ok()?
			};
			let mut r = SimRng::new(arg ^ 0xbad5);
			let sk = ed25519_dalek::SecretKey::from_bytes(&r.bytes(32)).ok()?;
			let pk: ed25519_dalek::PublicKey = (&sk).into();
			let kp = ed25519_dalek::Keypair { public: pk, secret: sk };
			let mut msg = Vec::new();
			msg.write_u64::<BigEndian>(s1.amount).ok()?;
			msg.extend_from_slice(&excess.0);
			msg.extend_from_slice(&p0.sender_address.to_bytes());
			let sig = kp.sign(&msg);
			let p = s.payment_proof.as_mut()?;
			p.receiver_address = pk;
			p.receiver_signature = Some(sig);
		}
		"proof_resign_amount" => {
			// a Byzantine recipient states another amount in its reply (honest replies
			// carry 0 there) and signs, with its genuine proof key, over that amount, the
			// final excess and the sender's address: two coordinated alterations
			use byteorder::{BigEndian, WriteBytesExt};
			use ed25519_dalek::Signer;
			let parent = ex.msgs[m].parent?;
			let s1 = ex.msgs[parent].slate.clone();
			let p0 = s.payment_proof.clone()?;
			let rw = ex.msgs[m].from?;
			if s1.participant_data.is_empty() || s.participant_data.is_empty() || rw >= ex.world.wallets.len() || !ex.world.is_open(rw) {
				return None;
			}
			let excess = {
				let secp = static_secp_instance();
				let secp = secp.lock();
				let sum = PublicKey::from_combination(
					&secp,
					vec![
						&s1.participant_data[0].public_blind_excess,
						&s.participant_data[0].public_blind_excess,
					],
				)
				.ok()?;
				grin_util::secp::pedersen::Commitment::from_pubkey(&secp, &sum).ok()?
			};
			// the recipient's proof key: the slatepack key of the account that received
			let owner = ex.world.owner(rw);
			let mask = ex.world.mask(rw);
			let snap = ex.world.snap(rw);
			let mut kp = None;
			for a in &snap.accts {
				if owner.set_active_account(mask.as_ref(), &a.label).is_err() {
					continue;
				}
				if let Ok(sk) = owner.get_slatepack_secret_key(mask.as_ref(), 0) {
					let pk: ed25519_dalek::PublicKey = (&sk).into();
					if pk == p0.receiver_address {
						kp = Some(ed25519_dalek::Keypair { public: pk, secret: sk });
						break;
					}
				}
			}
			let _ = owner.set_active_account(mask.as_ref(), &snap.active);
			let kp = kp?;
			let claimed = match arg % 3 {
				0 => 1 + arg % 1_000_000_007,
				1 => s1.amount.saturating_add(1 + arg % 1000),
				_ => std::cmp::max(1, s1.amount / 2),
			};
			if claimed == s1.amount {
				return None;
			}
			let mut msg = Vec::new();
			msg.write_u64::<BigEndian>(claimed).ok()?;
			msg.extend_from_slice(&excess.0);
			msg.extend_from_slice(&p0.sender_address.to_bytes());
			let sig = kp.sign(&msg);
			s.amount = claimed;
			let p = s.payment_proof.as_mut()?;
			p.receiver_signature = Some(sig);
		}
		"kernel_features" => {
			let n = (1 + arg % 4) as u8;
			s.kernel_features = n;
		}
		"com_drop" | "com_dup" | "com_add_other" | "com_swap_proof" | "com_replace_other" => {
			use grin_core::core::Output;
			let tx = s.tx.clone()?;
			let mut outs: Vec<Output> = tx.outputs().to_vec();
			// an output taken from another message on the wire
			let other: Option<Output> = ex
				.msgs
				.iter()
				.filter(|x| x.slate.id != s.id)
				.filter_map(|x| x.slate.tx.as_ref())
				.flat_map(|t| t.outputs().to_vec())
				.nth((arg as usize / 5) % 4);
			match kind {
				"com_drop" => {
					if outs.is_empty() {
						return None;
					}
					let i = (arg as usize) % outs.len();
					outs.remove(i);
				}
				"com_dup" => {
					if outs.is_empty() {
						return None;
					}
					let o = outs[(arg as usize) % outs.len()].clone();
					outs.push(o);
				}
				"com_add_other" => outs.push(other?),
				"com_replace_other" => {
					if outs.is_empty() {
						return None;
					}
					let i = (arg as usize) % outs.len();
					outs[i] = other?;
				}
				_ => {
					// keep the commitment, take the range proof of another output
					if outs.is_empty() {
						return None;
					}
					let i = (arg as usize) % outs.len();
					let o = other?;
					outs[i] = Output::new(outs[i].features(), outs[i].commitment(), o.proof);
				}
			}
			let mut tx2 = tx.clone();
			tx2.body = tx2.body.replace_outputs(&outs);
			s.tx = Some(tx2);
		}
		"com_split_own" => {
			// a Byzantine recipient replaces its one output by several that add up to
			// the same commitment (values and blinding factors): sums, signatures and
			// range proofs all stay valid, only the transaction got heavier than the fee
			// the sender chose pays for
			use grin_core::core::{Output, OutputFeatures};
			use grin_keychain::{Keychain, SwitchCommitmentType};
			let tx = s.tx.clone()?;
			let mut found = None;
			'search: for (oi, out) in tx.outputs().iter().enumerate() {
				for w in 0..ex.world.wallets.len() {
					if !ex.world.is_open(w) {
						continue;
					}
					for rec in ex.world.snap(w).outputs.iter() {
						if rec.status == grin_wallet_libwallet::OutputStatus::Unconfirmed
							&& rec.value >= 8 && ex.world.commit_of(w, rec) == out.commitment()
						{
							found = Some((oi, w, rec.clone()));
							break 'search;
						}
					}
				}
			}
			let (oi, w, rec) = found?;
			let r = ex.world.wallets[w]
				.kc
				.derive_key(rec.value, &rec.key_id, SwitchCommitmentType::Regular)
				.ok()?;
			let k = 2 + (arg % 3) as usize;
			let mut rng = SimRng::new(arg ^ 0x5911);
			let mut vals = vec![];
			let mut left = rec.value;
			for i in 0..k {
				let v = if i + 1 == k { left } else { 1 + rng.below(left - (k - i - 1) as u64 - 1).min(left / 2) };
				vals.push(v);
				left -= v;
			}
			let mut blinds = vec![];
			for i in 0..k - 1 {
				blinds.push(sk_from(arg.wrapping_add(i as u64 * 77)));
			}
			// (sk_from takes the secp lock itself: draw every key before holding it)
			let nonces: Vec<(SecretKey, SecretKey)> =
				vals.iter().map(|v| (sk_from(arg ^ *v ^ 0x11), sk_from(arg ^ *v ^ 0x22))).collect();
			let secp = static_secp_instance();
			let secp = secp.lock();
			let last = secp.blind_sum(vec![r], blinds.clone()).ok()?;
			blinds.push(last);
			let mut outs: Vec<Output> = tx.outputs().to_vec();
			outs.remove(oi);
			for ((v, b), (n1, n2)) in vals.iter().zip(blinds.iter()).zip(nonces.into_iter()) {
				let c = secp.commit(*v, b.clone()).ok()?;
				let proof = secp.bullet_proof(*v, b.clone(), n1, n2, None, None);
				outs.push(Output::new(OutputFeatures::Plain, c, proof));
			}
			let mut tx2 = tx.clone();
			tx2.body = tx2.body.replace_outputs(&outs);
			s.tx = Some(tx2);
		}
		_ => return None,
	}
	let _ = secp::constants::SECRET_KEY_SIZE;
	Some(s)
}
