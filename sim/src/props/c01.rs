//! C01 — sender-side transaction construction conserves value.

use crate::gen::{GenCfg, HistGen};
use crate::ops::{Op, SendArgs, Step, StepOut};
use crate::run::{sample_trace, Prop, Run, Violation};
use crate::world::Snap;
use grin_core::global;
use grin_core::libtx::tx_fee;
use grin_util::ToHex;
use grin_wallet_libwallet::{OutputStatus, TxLogEntryType};

pub struct C01 {
	gen: HistGen,
	pre: Option<(usize, Snap, usize)>,
	ctx_existed: bool,
	/// late-locked deal whose selection happens in the finalize step about to run
	late: Option<(usize, Snap, usize, SendArgs)>,
	/// outputs that were selected as inputs while still unconfirmed (min_conf 0):
	/// a refresh before their creating transaction confirms marks them Spent and the
	/// repair scan then frees them (known finding, same family as C05's)
	spent_unconfirmed: std::collections::BTreeSet<(usize, String)>,
	/// wallets whose books may legitimately differ from the chain: a fork happened and
	/// the wallet has not completed a full scan since (re-organisations are repaired by a
	/// scan, C04/C16/C18). Their selections are judged against the wallet's own records
	/// as the refresh inside the call left them, not against the node's unspent set.
	reorged: std::collections::BTreeSet<usize>,
	cancelled_posted: std::collections::BTreeSet<uuid::Uuid>,
	/// scripted steps waiting to be issued (LIFO)
	queue: Vec<Step>,
	/// scripted "send while holding a Reverted output" sequences left in this run
	rev_probes_left: u32,
	/// coinbase candidates to leave unmined in this run
	candidates_left: u32,
	tiny_change_left: u32,
}

impl C01 {
	pub fn new(run: &mut Run) -> C01 {
		let mut cfg = GenCfg::swarm(run);
		cfg.boundary_args = true;
		cfg.w_new_send += 25;
		cfg.w_new_invoice += 4;
		cfg.max_inflight = 3 + run.rng.below(4) as usize;
		cfg.allow_late_lock = true;
		cfg.p_late_lock = *run.rng.pick(&[20u64, 40]);
		cfg.w_cancel = run.rng.below(4) as u32;
		if !run.rng.chance(1, 4) {
			cfg.p_node_fail = run.rng.below(20);
			if run.rng.chance(1, 2) {
				cfg.p_fault = run.rng.below(15);
				cfg.fault_kinds = vec!["fail"];
			}
		}
		// many small outputs: fund with more blocks, split by self-sends with many change outputs
		if run.rng.chance(1, 2) {
			for f in cfg.fund_blocks.iter_mut() {
				*f += run.rng.below(6) as u32;
			}
		}
		// swarm: re-organisations and scans, so that the output set also holds Reverted
		// records (and records a fork removed that the wallet has not looked at yet)
		let mut rev_probes_left = 0;
		if run.rng.chance(1, 4) {
			cfg.w_fork = 1 + run.rng.below(3) as u32;
			cfg.w_scan = 2 + run.rng.below(3) as u32;
			cfg.avoid_spend_unconfirmed = false;
			rev_probes_left = 1 + run.rng.below(2) as u32;
		}
		let gen = HistGen::new(cfg, run);
		C01 {
			gen,
			pre: None,
			ctx_existed: false,
			late: None,
			spent_unconfirmed: Default::default(),
			reorged: Default::default(),
			cancelled_posted: Default::default(),
			queue: vec![],
			rev_probes_left,
			candidates_left: run.rng.below(3) as u32,
			tiny_change_left: run.rng.below(3) as u32,
		}
	}

	/// eligibility of a selected input by the wallet's own record of it
	fn judge_by_books(rec: Option<&grin_wallet_libwallet::OutputData>, tip: u64, min_conf: u64) -> Option<(String, String)> {
		let r = match rec {
			Some(r) => r,
			None => return Some(("unknown_output".into(), "is not recorded".into())),
		};
		match r.status {
			OutputStatus::Unspent => {
				if r.lock_height > tip {
					return Some(("immature_coinbase".into(), format!("is recorded with lock height {} at tip {}", r.lock_height, tip)));
				}
				let confs = if r.height > tip { 0 } else { 1 + tip - r.height };
				if confs < min_conf {
					return Some(("too_few_confirmations".into(), format!("is recorded at height {} ({} confirmations, {} requested)", r.height, confs, min_conf)));
				}
				None
			}
			OutputStatus::Unconfirmed if !r.is_coinbase && min_conf == 0 => None,
			OutputStatus::Unconfirmed if r.is_coinbase => Some(("unconfirmed_coinbase".into(), "is an unconfirmed coinbase candidate".into())),
			_ => Some((format!("{}", r.status), format!("is recorded {}", r.status))),
		}
	}

	fn count_ctx(run: &Run, w: usize) -> usize {
		run.ex
			.world
			.raw_db(w)
			.iter()
			.filter(|(k, _)| k.first() == Some(&b'p'))
			.count()
	}

	fn judge_ok(
		&mut self,
		run: &mut Run,
		w: usize,
		args: &SendArgs,
		pre: &Snap,
		msg: usize,
		what: &str,
	) -> Vec<Violation> {
		let mut v = vec![];
		let slate = run.ex.msgs[msg].slate.clone();
		if what == "pay_invoice"
			&& pre.txs.iter().any(|t| {
				t.tx_slate_id == Some(slate.id) && t.tx_type == TxLogEntryType::TxReceived
			}) {
			// invoice paid by its own issuer: the contexts are merged by design
			run.cov.not_judged("self_paid_invoice");
			return v;
		}
		let ctx = match run.ex.world.get_context(w, slate.id.as_bytes()) {
			Some(c) => c,
			None => {
				v.push(run.viol(
					"context_saved",
					"no_context_after_success",
					format!("wallet {}: {} returned a slate but saved no context", w, what),
				));
				return v;
			}
		};
		let acct_label = args.src_acct.clone().unwrap_or(pre.active.clone());
		let acct = match pre.acct_path(&acct_label) {
			Some(p) => p,
			// unknown source account name falls back to the active account
			None => match pre.acct_path(&pre.active) {
				Some(p) => p,
				None => return v,
			},
		};
		let tip = run.ex.world.chain.height();
		let truth = run.ex.world.truth(w);
		let maturity = global::coinbase_maturity();
		let nontrivial = !ctx.input_ids.is_empty();
		run.cov.case(
			&format!(
				"{}|{}|{}|{}|{}|{}|{}|{}",
				what,
				args.min_conf,
				args.max_outputs,
				args.num_change,
				args.use_all,
				args.incl_fee,
				args.late_lock,
				std::cmp::min(ctx.input_ids.len(), 6)
			),
			nontrivial,
		);
		if args.late_lock && what == "init_send" {
			// nothing selected yet; conservation is judged when the lock happens
			run.cov.probe("late_lock_init");
			if !ctx.input_ids.is_empty() {
				v.push(run.viol(
					"late_lock",
					"late_lock_selected_inputs_early",
					format!("wallet {}: late-locked init stored inputs", w),
				));
				return v;
			}
			// the amount the recipient is asked to accept is fixed now: with 'amount
			// includes fee' it is A - fee, the fee being the one the slate carries
			let fee = slate.fee_fields.fee();
			let expect = if args.incl_fee {
				args.amount.saturating_sub(fee)
			} else {
				args.amount
			};
			if slate.amount != expect || ctx.amount != slate.amount {
				v.push(run.viol(
					"conservation",
					"late_lock_recipient_amount_wrong",
					format!(
						"wallet {}: late-locked send of {} (amount includes fee: {}) fee {}: slate amount {} context amount {} expected {}",
						w, args.amount, args.incl_fee, fee, slate.amount, ctx.amount, expect
					),
				));
			}
			return v;
		}
		let mut in_sum: u128 = 0;
		for (kid, mmr, val) in &ctx.input_ids {
			in_sum += *val as u128;
			let rec = pre
				.outputs
				.iter()
				.find(|o| o.key_id == *kid && o.mmr_index == *mmr);
			let rec = match rec {
				Some(r) => r,
				None => {
					v.push(run.viol(
						"inputs_spendable",
						"input_unknown_output",
						format!("wallet {}: selected input {} is not an output of the wallet", w, kid.to_hex()),
					));
					return v;
				}
			};
			if rec.root_key_id != acct {
				v.push(run.viol(
					"inputs_spendable",
					"input_of_other_account",
					format!(
						"wallet {}: {} from account {} selected output {} of account {}",
						w,
						what,
						acct_label,
						kid.to_hex(),
						pre.acct_label(&rec.root_key_id)
					),
				));
				return v;
			}
			if rec.value != *val {
				v.push(run.viol(
					"inputs_spendable",
					"input_value_mismatch",
					format!("wallet {}: input {} value {} recorded {}", w, kid.to_hex(), val, rec.value),
				));
				return v;
			}
			// a record that was Reverted (or, after a fork, Spent) before the call and is in
			// the node's unspent set again was re-confirmed by the refresh inside the call:
			// judged against the chain like any other input below
			let back_on_chain = {
				let c = run.ex.world.commit_of(w, rec);
				truth.iter().any(|t| t.commit == c)
			};
			match rec.status {
				OutputStatus::Reverted | OutputStatus::Spent if back_on_chain => {
					run.cov.probe("selected_input_was_reconfirmed_by_the_embedded_refresh");
				}
				OutputStatus::Locked | OutputStatus::Spent | OutputStatus::Reverted => {
					v.push(run.viol(
						"inputs_spendable",
						&format!("input_{}", rec.status),
						format!("wallet {}: selected input {} was {} before the call", w, kid.to_hex(), rec.status),
					));
					return v;
				}
				_ => {}
			}
			let c = run.ex.world.commit_of(w, rec);
			let t = truth.iter().find(|t| t.commit == c);
			if rec.status == OutputStatus::Unconfirmed {
				self.spent_unconfirmed.insert((w, kid.to_hex()));
			}
			if self.reorged.contains(&w) {
				// books of a wallet that has not scanned since a fork: judged as recorded
				// after the call (the refresh ran before the selection, nothing touched the
				// selected records after it)
				run.cov.not_judged("chain_truth_of_inputs_after_unscanned_reorg");
				let post = run.ex.world.snap(w);
				let now = post.outputs.iter().find(|o| o.key_id == *kid && o.mmr_index == *mmr);
				if let Some(e) = Self::judge_by_books(now, tip, args.min_conf) {
					v.push(run.viol(
						"inputs_spendable",
						&format!("input_{}", e.0),
						format!("wallet {}: selected input {} {} (wallet has not scanned since a fork)", w, kid.to_hex(), e.1),
					));
					return v;
				}
				continue;
			}
			match t {
				None => {
					if rec.status == OutputStatus::Unconfirmed && rec.is_coinbase {
						// a coinbase candidate whose block never reached the chain
						v.push(run.viol(
							"inputs_spendable",
							"input_unconfirmed_coinbase",
							format!(
								"wallet {}: selected the unconfirmed coinbase candidate {} (minimum_confirmations {})",
								w,
								kid.to_hex(),
								args.min_conf
							),
						));
						return v;
					}
					if rec.status == OutputStatus::Unconfirmed && args.min_conf == 0 {
						run.cov.not_judged("unconfirmed_input_with_minconf_0");
						continue;
					}
					let sig = if self.spent_unconfirmed.contains(&(w, kid.to_hex())) {
						"input_not_in_utxo:output_earlier_spent_while_unconfirmed"
					} else {
						"input_not_in_utxo"
					};
					v.push(run.viol(
						"inputs_spendable",
						sig,
						format!(
							"wallet {}: selected input {} ({}) is not in the node's unspent set",
							w,
							kid.to_hex(),
							rec.status
						),
					));
					return v;
				}
				Some(t) => {
					if t.is_coinbase && t.height + maturity > tip {
						v.push(run.viol(
							"inputs_spendable",
							"input_immature_coinbase",
							format!(
								"wallet {}: selected coinbase {} of height {} at tip {} (maturity {})",
								w,
								kid.to_hex(),
								t.height,
								tip,
								maturity
							),
						));
						return v;
					}
					let confs = 1 + tip.saturating_sub(t.height);
					if confs < args.min_conf {
						v.push(run.viol(
							"inputs_spendable",
							"input_too_few_confirmations",
							format!(
								"wallet {}: input {} has {} confirmations, {} requested",
								w,
								kid.to_hex(),
								confs,
								args.min_conf
							),
						));
						return v;
					}
				}
			}
		}
		let change: u128 = ctx.output_ids.iter().map(|(_, _, v)| *v as u128).sum();
		let fee = ctx.fee.map(|f| f.fee()).unwrap_or(0) as u128;
		let (amount_req, slate_amount_expect) = if what == "init_send" {
			if args.incl_fee {
				(args.amount as u128, args.amount as u128 - std::cmp::min(fee, args.amount as u128))
			} else {
				(args.amount as u128 + fee, args.amount as u128)
			}
		} else {
			// paying an invoice: the amount is the invoice's
			(ctx.amount as u128 + fee, ctx.amount as u128)
		};
		if in_sum != amount_req + change {
			v.push(run.viol(
				"conservation",
				"inputs_ne_amount_fee_change",
				format!(
					"wallet {} {}: inputs {} != amount(+fee) {} + change {} (amount {}, fee {}, incl_fee {})",
					w, what, in_sum, amount_req, change, args.amount, fee, args.incl_fee
				),
			));
			return v;
		}
		if ctx.amount as u128 != slate_amount_expect {
			v.push(run.viol(
				"conservation",
				"recipient_amount_wrong",
				format!(
					"wallet {} {}: recipient amount {} expected {}",
					w, what, ctx.amount, slate_amount_expect
				),
			));
			return v;
		}
		// network minimum for the resulting shape: inputs, change + recipient output, one kernel
		let min_fee = tx_fee(ctx.input_ids.len(), ctx.output_ids.len() + 1, 1) as u128;
		if fee < min_fee {
			v.push(run.viol(
				"fee_minimum",
				"fee_below_minimum",
				format!(
					"wallet {} {}: fee {} below network minimum {} for {} inputs / {} outputs",
					w,
					what,
					fee,
					min_fee,
					ctx.input_ids.len(),
					ctx.output_ids.len() + 1
				),
			));
			return v;
		}
		if what == "init_send" {
			if slate.amount as u128 != slate_amount_expect || slate.fee_fields.fee() as u128 != fee {
				v.push(run.viol(
					"conservation",
					"slate_disagrees_with_context",
					format!(
						"wallet {}: returned slate amount {} fee {} but context amount {} fee {}",
						w,
						slate.amount,
						slate.fee_fields.fee(),
						ctx.amount,
						fee
					),
				));
			}
		}
		if ctx.output_ids.len() > 1 {
			run.cov.probe("multiple_change_outputs");
		}
		if change == 0 {
			run.cov.probe("no_change");
		}
		v
	}
}

impl C01 {
	/// A late-locked send selects its inputs when the reply is finalized.
	fn judge_late(
		&mut self,
		run: &mut Run,
		w: usize,
		d: usize,
		pre: &Snap,
		_nctx: usize,
		args: &SendArgs,
		step: &Step,
		out: &StepOut,
	) -> Vec<Violation> {
		let mut v = vec![];
		let deal = run.model.deals[d].clone();
		let post = run.ex.world.snap(w);
		// the source account is the one the send was initiated from (src_acct_name or the
		// account active then), whatever account is active at finalize time
		let acct = match pre.acct_path(&deal.init_acct).or_else(|| pre.acct_path(&pre.active)) {
			Some(a) => a,
			None => return v,
		};
		let new_sent: Vec<_> = post
			.txs
			.iter()
			.filter(|t| {
				t.tx_slate_id == Some(deal.id)
					&& t.tx_type == TxLogEntryType::TxSent
					&& !pre.txs.iter().any(|p| p.id == t.id && p.parent_key_id == t.parent_key_id)
			})
			.cloned()
			.collect();
		if out.ok {
			run.cov.case(
				&format!(
					"late_finalize|ok|{}|{}|{}|{}",
					args.min_conf, args.max_outputs, args.num_change, args.use_all
				),
				true,
			);
			run.cov.probe("late_lock_selection_judged");
			let sent = match new_sent.first() {
				Some(s) => s.clone(),
				None => {
					v.push(run.viol(
						"late_lock",
						"late_lock_no_sent_entry",
						format!("wallet {}: late-locked finalize succeeded without a sent entry", w),
					));
					return v;
				}
			};
			let linked: Vec<_> = post
				.outputs
				.iter()
				.filter(|o| o.tx_log_entry == Some(sent.id) && o.root_key_id == sent.parent_key_id)
				.collect();
			let tip = run.ex.world.chain.height();
			let truth = run.ex.world.truth(w);
			let maturity = global::coinbase_maturity();
			let mut in_sum: u128 = 0;
			let mut n_in = 0usize;
			let mut change: u128 = 0;
			let mut n_change = 0usize;
			for o in &linked {
				let before = pre
					.outputs
					.iter()
					.find(|p| p.key_id == o.key_id && p.mmr_index == o.mmr_index);
				match before {
					Some(b) => {
						// an input: it existed before the call
						n_in += 1;
						in_sum += o.value as u128;
						if b.status == OutputStatus::Unconfirmed {
							self.spent_unconfirmed.insert((w, o.key_id.to_hex()));
						}
						if b.root_key_id != acct {
							v.push(run.viol(
								"inputs_spendable",
								"input_of_other_account",
								format!("wallet {}: late lock selected output {} of another account", w, o.key_id.to_hex()),
							));
							return v;
						}
						match b.status {
							OutputStatus::Locked | OutputStatus::Spent | OutputStatus::Reverted => {
								v.push(run.viol(
									"inputs_spendable",
									&format!("input_{}", b.status),
									format!(
										"wallet {}: late lock selected input {} which was {} before the call",
										w,
										o.key_id.to_hex(),
										b.status
									),
								));
								return v;
							}
							_ => {}
						}
						let c = run.ex.world.commit_of(w, b);
						if self.reorged.contains(&w) {
							// finalize does not refresh: the records before the call are what
							// the selection saw
							run.cov.not_judged("chain_truth_of_inputs_after_unscanned_reorg");
							if let Some(e) = Self::judge_by_books(Some(b), tip, args.min_conf) {
								v.push(run.viol(
									"inputs_spendable",
									&format!("input_{}", e.0),
									format!("wallet {}: late lock selected input {} {} (wallet has not scanned since a fork)", w, o.key_id.to_hex(), e.1),
								));
								return v;
							}
							continue;
						}
						match truth.iter().find(|t| t.commit == c) {
							None => {
								if b.status == OutputStatus::Unconfirmed && b.is_coinbase {
									v.push(run.viol(
										"inputs_spendable",
										"input_unconfirmed_coinbase",
										format!("wallet {}: late lock selected the unconfirmed coinbase candidate {}", w, o.key_id.to_hex()),
									));
									return v;
								} else if b.status == OutputStatus::Unconfirmed && args.min_conf == 0 {
									run.cov.not_judged("unconfirmed_input_with_minconf_0");
								} else {
									v.push(run.viol(
										"inputs_spendable",
										"input_not_in_utxo",
										format!(
											"wallet {}: late lock selected input {} ({}) not in the node's unspent set",
											w,
											o.key_id.to_hex(),
											b.status
										),
									));
									return v;
								}
							}
							Some(t) => {
								if t.is_coinbase && t.height + maturity > tip {
									v.push(run.viol(
										"inputs_spendable",
										"input_immature_coinbase",
										format!("wallet {}: late lock selected immature coinbase {}", w, o.key_id.to_hex()),
									));
									return v;
								}
								let confs = 1 + tip.saturating_sub(t.height);
								if confs < args.min_conf {
									v.push(run.viol(
										"inputs_spendable",
										"input_too_few_confirmations",
										format!(
											"wallet {}: late lock input {} has {} confirmations, {} requested",
											w,
											o.key_id.to_hex(),
											confs,
											args.min_conf
										),
									));
									return v;
								}
							}
						}
					}
					None => {
						n_change += 1;
						change += o.value as u128;
					}
				}
			}
			let fee = deal.fee.unwrap_or(0) as u128;
			let amount = deal.amount as u128; // the recipient amount agreed at initiation
			if in_sum != amount + fee + change {
				v.push(run.viol(
					"conservation",
					"inputs_ne_amount_fee_change",
					format!(
						"wallet {} late lock: inputs {} != amount {} + fee {} + change {}",
						w, in_sum, amount, fee, change
					),
				));
				return v;
			}
			let min_fee = tx_fee(n_in, n_change + 1, 1) as u128;
			if fee < min_fee {
				v.push(run.viol(
					"fee_minimum",
					"fee_below_minimum",
					format!(
						"wallet {} late lock: fee {} below network minimum {} for {} inputs / {} outputs",
						w,
						fee,
						min_fee,
						n_in,
						n_change + 1
					),
				));
				return v;
			}
		} else if out.err.is_some() {
			let region = if step.node_fail.is_some() || step.fault.is_some() {
				"injected_fault"
			} else {
				"other"
			};
			run.cov.case(&format!("late_finalize|err|{}", region), true);
			if region == "injected_fault" {
				// a failing write between the reservation batch and the rest is C07's subject
				run.cov.not_judged("late_finalize_failed_under_injected_fault");
				return v;
			}
			if out.err.as_ref().map(|e| e.contains("Payment Proof")).unwrap_or(false) {
				// the reply was refused for its proof (the recipient signed under another
				// account's address): a refused reply, judged by C07/C11
				run.cov.not_judged("late_finalize_reply_refused_for_its_proof");
				return v;
			}
			run.cov.probe("late_lock_refused");
			let locked_pre: Vec<String> = pre
				.outputs
				.iter()
				.filter(|o| o.status == OutputStatus::Locked)
				.map(|o| o.key_id.to_hex())
				.collect();
			for o in &post.outputs {
				if o.status == OutputStatus::Locked && !locked_pre.contains(&o.key_id.to_hex()) {
					// a late-locked *self*-send at minimum_confirmations 0 selects the
					// unconfirmed output this very transaction creates (listed finding)
					let sig = if deal.payer == deal.payee && args.min_conf == 0 {
						"failed_call_locked_output:finalize:self_send_selected_own_unconfirmed_output"
					} else {
						"failed_call_locked_output:finalize"
					};
					v.push(run.viol(
						"failure_atomicity",
						sig,
						format!(
							"wallet {}: finalize of the genuine reply to a late-locked send failed ({}) and left output {} locked",
							w,
							out.err.clone().unwrap_or_default(),
							o.key_id.to_hex()
						),
					));
					return v;
				}
			}
			if !new_sent.is_empty() {
				v.push(run.viol(
					"failure_atomicity",
					"failed_call_logged_entry:finalize",
					format!("wallet {}: failed late-locked finalize added a sent log entry", w),
				));
				return v;
			}
			if post.outputs.len() > pre.outputs.len() {
				v.push(run.viol(
					"failure_atomicity",
					"failed_call_created_output:finalize",
					format!("wallet {}: failed late-locked finalize created an output record", w),
				));
				return v;
			}
		}
		v
	}
}

impl Prop for C01 {
	fn id(&self) -> &'static str {
		"C01"
	}
	fn owns_panic(&self, step: &Step) -> bool {
		matches!(step.op, Op::InitSend { .. } | Op::PayInvoice { .. } | Op::Finalize { .. })
	}
	fn custom(&mut self, ex: &mut crate::ops::Exec, name: &str, a: &serde_json::Value) -> crate::ops::OpRes {
		use crate::ops::OpRes;
		if name != "cb_candidate" {
			return OpRes::Skipped("unknown".into());
		}
		// a mining node asks for a coinbase and the block never makes it to the chain
		let w = a["w"].as_u64().unwrap_or(0) as usize;
		if w >= ex.world.wallets.len() || !ex.world.is_open(w) {
			return OpRes::Skipped("unavailable".into());
		}
		let bf = grin_wallet_libwallet::BlockFees {
			fees: a["fees"].as_u64().unwrap_or(0),
			height: ex.world.chain.height() + 1,
			key_id: None,
		};
		match ex.world.foreign(w).build_coinbase(&bf) {
			Ok(_) => OpRes::Ok { new_msg: None, note: String::new(), validated: None, new_wallet: None },
			Err(e) => OpRes::Err(format!("{}", e)),
		}
	}
	fn next(&mut self, run: &mut Run) -> Option<Step> {
		if let Some(mut s) = self.queue.pop() {
			// the scripted send asks for more than the wallet can spend without the
			// Reverted output (and no more than with it)
			if let Op::InitSend { w, args } = &mut s.op {
				if *w < run.ex.world.wallets.len() && run.ex.world.is_open(*w) {
					let snap = run.ex.world.snap(*w);
					if let Some(acct) = snap.acct_path(&snap.active) {
						let rev: u64 = snap
							.outputs
							.iter()
							.filter(|o| o.root_key_id == acct && o.status == OutputStatus::Reverted)
							.map(|o| o.value)
							.sum();
						if rev > 0 {
							let sp = HistGen::spendable(run, *w);
							args.amount = sp + rev / 2 + run.rng.below(1000);
							run.cov.probe("send_attempted_while_holding_a_reverted_output");
						}
					}
				}
			}
			return Some(s);
		}
		if self.gen.setup_done && self.rev_probes_left > 0 && run.rng.chance(1, 6) {
			// aim a fork at the block of a confirmed incoming payment, let the wallet find
			// it reverted, then ask it to pay with no confirmations required
			let tip = run.ex.world.chain.height();
			let cands: Vec<(usize, u64)> = run
				.model
				.deals
				.iter()
				.filter(|d| d.mined.is_some() && d.payee.is_some() && d.payee != d.payer)
				.map(|d| (d.payee.unwrap(), d.mined.unwrap()))
				.collect();
			if !cands.is_empty() && !run.ex.world.chain.is_down() {
				let (w, h) = *run.rng.pick(&cands);
				let depth = tip + 1 - h;
				if depth >= 1 && depth <= 6 && depth < tip && run.ex.world.is_open(w) {
					self.rev_probes_left -= 1;
					let mut a = SendArgs::simple(1);
					a.min_conf = 0;
					a.max_outputs = 500;
					a.use_all = run.rng.chance(1, 2);
					a.num_change = 1 + run.rng.below(2) as u32;
					a.late_lock = run.rng.chance(1, 4);
					let mut q = vec![
						Step::new(Op::Refresh { w }),
						Step::new(Op::Fork { depth, extra: run.rng.range(1, 2), include: false, readd: false }),
						Step::new(Op::Scan { w, start: None, del: false }),
						Step::new(Op::InitSend { w, args: a }),
					];
					q.reverse();
					self.queue = q;
					return self.queue.pop();
				}
			}
		}
		if self.gen.setup_done && self.candidates_left > 0 && run.rng.chance(1, 10) {
			let nw = run.ex.world.wallets.len();
			if nw > 0 {
				self.candidates_left -= 1;
				run.cov.probe("coinbase_candidate_never_mined");
				return Some(Step::new(Op::Custom {
					name: "cb_candidate".into(),
					args: serde_json::json!({"w": run.rng.idx(nw), "fees": run.rng.below(3) * 1_000_000}),
				}));
			}
		}
		// corner region: change smaller than the square of the number of change outputs
		// (spend everything eligible, leave a handful of nanogrin as change)
		if self.gen.setup_done && self.tiny_change_left > 0 && run.rng.chance(1, 8) {
			let nw = run.ex.world.wallets.len();
			let w = run.rng.idx(nw.max(1));
			if nw > 0 && run.ex.world.is_open(w) && !run.ex.world.chain.is_down() {
				let snap = run.ex.world.snap(w);
				let tip = run.ex.world.chain.height();
				if let Some(acct) = snap.acct_path(&snap.active) {
					let elig: Vec<u64> = snap
						.outputs
						.iter()
						.filter(|o| {
							o.root_key_id == acct
								&& o.status == OutputStatus::Unspent
								&& o.lock_height <= tip && o.height <= tip
						})
						.map(|o| o.value)
						.collect();
					let total: u64 = elig.iter().sum();
					let k = *run.rng.pick(&[2u32, 3, 3, 5, 7]);
					let fee = tx_fee(elig.len(), k as usize + 1, 1);
					let c = run.rng.below((k * k) as u64 + 3);
					if !elig.is_empty() && total > fee + c + 1 {
						self.tiny_change_left -= 1;
						let mut a = SendArgs::simple(total - fee - c);
						a.min_conf = 1;
						a.max_outputs = 500;
						a.use_all = true;
						a.num_change = k;
						run.cov.probe("change_below_square_of_change_outputs_attempted");
						return Some(Step::new(Op::InitSend { w, args: a }));
					}
				}
			}
		}
		self.gen.next(run)
	}
	fn before(&mut self, run: &mut Run, step: &Step) {
		self.pre = None;
		self.ctx_existed = false;
		self.late = None;
		if let Op::Finalize { w, m, .. } = &step.op {
			if *w < run.ex.world.wallets.len() && run.ex.world.is_open(*w) && *m < run.ex.msgs.len() {
				if let Some(d) = run.model.deal_of_msg(run, *m) {
					let deal = &run.model.deals[d];
					let pending_late = run
						.ex
						.world
						.get_context(*w, deal.id.as_bytes())
						.map(|c| c.late_lock_args.is_some())
						.unwrap_or(false);
					if deal.late_lock
						&& deal.payer == Some(*w)
						&& pending_late
						&& run.ex.msgs[*m].mutated.is_none()
						&& deal.m2 == Some(*m)
					{
						// the arguments the selection will use are the ones given at initiation
						let args = match run.trace.get(deal.created_at_step).map(|s| &s.op) {
							Some(Op::InitSend { args, .. }) => Some(args.clone()),
							_ => None,
						};
						if let Some(args) = args {
							self.late = Some((d, run.ex.world.snap(*w), Self::count_ctx(run, *w), args));
						}
					}
				}
			}
		}
		if let Op::PayInvoice { w, m, .. } = &step.op {
			if *w < run.ex.world.wallets.len() && run.ex.world.is_open(*w) && *m < run.ex.msgs.len() {
				let id = run.ex.msgs[*m].slate.id;
				self.ctx_existed = run.ex.world.get_context(*w, id.as_bytes()).is_some();
			}
		}
		if let Op::InitSend { w, .. } | Op::PayInvoice { w, .. } = &step.op {
			if *w < run.ex.world.wallets.len() && run.ex.world.is_open(*w) {
				let n = Self::count_ctx(run, *w);
				self.pre = Some((*w, run.ex.world.snap(*w), n));
			}
		}
	}
	fn after(&mut self, run: &mut Run, step: &Step, out: &StepOut) -> Vec<Violation> {
		let mut v = vec![];
		self.gen.feedback(run, step, out);
		match &step.op {
			Op::Fork { .. } if out.ok => {
				for w in 0..run.ex.world.wallets.len() {
					self.reorged.insert(w);
				}
				run.cov.probe("fork_in_a_selection_history");
			}
			Op::Scan { w, start, .. } if out.ok && start.unwrap_or(0) <= 1 => {
				self.reorged.remove(w);
			}
			_ => {}
		}
		// the other history the books do not follow without a scan (C04): a transaction
		// that was cancelled (by hand, by expiry or by a scan asked to drop pending
		// transactions) although it had been broadcast
		let mut off_books = vec![];
		for d in &run.model.deals {
			if d.cancelled_after_post || (!d.cancelled_by.is_empty() && d.posted) {
				if !self.cancelled_posted.contains(&d.id) {
					self.cancelled_posted.insert(d.id);
					off_books.extend([d.payer, d.payee, Some(d.initiator)].iter().flatten().cloned());
				}
			}
		}
		for w in off_books {
			run.cov.probe("broadcast_transaction_cancelled_in_a_selection_history");
			self.reorged.insert(w);
		}
		if let Op::Finalize { w, .. } = &step.op {
			if let Some((d, pre, nctx, args)) = self.late.take() {
				if !out.skipped && !out.crashed && run.ex.world.is_open(*w) {
					v.extend(self.judge_late(run, *w, d, &pre, nctx, &args, step, out));
				}
			}
			return v;
		}
		let (w, args, what) = match &step.op {
			Op::InitSend { w, args } => (*w, args.clone(), "init_send"),
			Op::PayInvoice { w, args, .. } => (*w, args.clone(), "pay_invoice"),
			_ => return v,
		};
		let (pw, pre, nctx) = match self.pre.take() {
			Some(p) => p,
			None => return v,
		};
		if pw != w || out.skipped || out.crashed {
			return v;
		}
		if out.ok {
			if args.estimate {
				run.cov.probe("estimate_only");
				// an estimate persists nothing
				if Self::count_ctx(run, w) != nctx {
					v.push(run.viol(
						"failure_atomicity",
						"estimate_saved_context",
						format!("wallet {}: estimate_only saved a private context", w),
					));
				}
				return v;
			}
			if self.ctx_existed {
				// a context for this slate already existed (repeated pay step or an
				// invoice paid by its issuer): the wallet merges contexts
				run.cov.not_judged("pay_invoice_with_existing_context");
				return v;
			}
			if let Some(m) = out.new_msg {
				v.extend(self.judge_ok(run, w, &args, &pre, m, what));
			}
		} else if out.err.is_some() && run.ex.world.is_open(w) {
			// failure: nothing that reserves funds is persisted
			let post = run.ex.world.snap(w);
			let region = if args.num_change == 0 {
				"zero_change_outputs"
			} else if args.amount > u64::MAX / 2 {
				"near_numeric_limit"
			} else if step.node_fail.is_some() || step.fault.is_some() {
				"injected_fault"
			} else {
				"other"
			};
			run.cov.case(&format!("err|{}|{}|{}", what, region, args.num_change), region != "other");
			let locked_pre: Vec<String> = pre
				.outputs
				.iter()
				.filter(|o| o.status == OutputStatus::Locked)
				.map(|o| o.key_id.to_hex())
				.collect();
			for o in &post.outputs {
				if o.status == OutputStatus::Locked && !locked_pre.contains(&o.key_id.to_hex()) {
					v.push(run.viol(
						"failure_atomicity",
						"failed_call_locked_output",
						format!("wallet {}: failed {} left output {} locked", w, what, o.key_id.to_hex()),
					));
					return v;
				}
			}
			let sent_pre = pre
				.txs
				.iter()
				.filter(|t| t.tx_type == TxLogEntryType::TxSent)
				.count();
			let sent_post = post
				.txs
				.iter()
				.filter(|t| t.tx_type == TxLogEntryType::TxSent)
				.count();
			if sent_post > sent_pre {
				v.push(run.viol(
					"failure_atomicity",
					"failed_call_logged_entry",
					format!("wallet {}: failed {} added a sent log entry", w, what),
				));
				return v;
			}
			if post.outputs.len() > pre.outputs.len() {
				v.push(run.viol(
					"failure_atomicity",
					"failed_call_created_output",
					format!("wallet {}: failed {} created an output record", w, what),
				));
				return v;
			}
			// a private context by itself reserves nothing; it is still junk if a call that
			// was refused for its arguments leaves one. Not judged when the simulator made a
			// write report failure *after* it had taken effect (a ".post" fault point): the
			// record is there by construction of the fault.
			let failed_after_commit = step
				.fault
				.as_ref()
				.map(|f| f.point.ends_with(".post") && out.fault_fired)
				.unwrap_or(false);
			if failed_after_commit && Self::count_ctx(run, w) > nctx {
				run.cov.not_judged("context_written_by_a_commit_that_then_reported_failure");
			} else if Self::count_ctx(run, w) > nctx {
				v.push(run.viol(
					"failure_atomicity",
					"failed_call_saved_context",
					format!("wallet {}: failed {} saved a private context", w, what),
				));
				return v;
			}
		}
		if run.trace.len() == 14 {
			let s = sample_trace(run, 14);
			run.cov.sample(s);
		}
		v
	}
}
