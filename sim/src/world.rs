//! The simulated world: real wallets (DefaultWalletImpl over LMDB) on a real
//! chain, plus the simulator's observer access (snapshots, chain truth).

use crate::chain::{ChainCtl, SimNodeClient};
use crate::rng::SimRng;
use grin_core::libtx::proof;
use grin_keychain::{ExtKeychain, Identifier, Keychain};
use grin_util::secp::key::SecretKey;
use grin_util::secp::pedersen;
use grin_util::{Mutex, ToHex, ZeroingString};
use grin_wallet_api::{Foreign, Owner};
use grin_wallet_impls::{DefaultLCProvider, DefaultWalletImpl};
use grin_wallet_libwallet::{
	AcctPathMapping, Context, Error, OutputData, OutputStatus, TxLogEntry, TxLogEntryType,
	WalletBackend, WalletInfo, WalletInst,
};
use std::collections::BTreeMap;
use std::sync::Arc;

pub type LC = DefaultLCProvider<'static, SimNodeClient, ExtKeychain>;
pub type WInst = Arc<Mutex<Box<dyn WalletInst<'static, LC, SimNodeClient, ExtKeychain>>>>;
pub type OwnerApi = Owner<LC, SimNodeClient, ExtKeychain>;
pub type ForeignApi = Foreign<'static, LC, SimNodeClient, ExtKeychain>;
pub type Backend = dyn WalletBackend<'static, SimNodeClient, ExtKeychain>;

pub struct WalletH {
	pub idx: usize,
	pub top_dir: String,
	pub password: String,
	pub seed: Vec<u8>,
	pub mnemonic: String,
	pub use_mask: bool,
	pub mask: Option<SecretKey>,
	pub inst: Option<WInst>,
	pub owner: Option<Arc<OwnerApi>>,
	pub foreign: Option<Arc<ForeignApi>>,
	pub kc: ExtKeychain,
	pub opens: u32,
}

#[derive(Clone, Debug)]
pub struct TruthOut {
	pub commit: pedersen::Commitment,
	pub value: u64,
	pub height: u64,
	pub is_coinbase: bool,
	pub key_id: Identifier,
	pub acct: Identifier,
	pub mmr: u64,
}

#[derive(Clone, Debug, Default)]
pub struct Snap {
	pub open: bool,
	pub outputs: Vec<OutputData>,
	pub txs: Vec<TxLogEntry>,
	pub accts: Vec<AcctPathMapping>,
	pub child_idx: BTreeMap<String, u32>,
	pub conf_height: BTreeMap<String, u64>,
	pub active: String,
}

impl Snap {
	pub fn acct_label(&self, path: &Identifier) -> String {
		for a in &self.accts {
			if a.path == *path {
				return a.label.clone();
			}
		}
		format!("?{}", path.to_hex())
	}
	pub fn acct_path(&self, label: &str) -> Option<Identifier> {
		self.accts.iter().find(|a| a.label == label).map(|a| a.path.clone())
	}
	pub fn outs_of(&self, path: &Identifier) -> Vec<&OutputData> {
		self.outputs.iter().filter(|o| o.root_key_id == *path).collect()
	}
	pub fn txs_of(&self, path: &Identifier) -> Vec<&TxLogEntry> {
		self.txs.iter().filter(|t| t.parent_key_id == *path).collect()
	}
	/// canonical, order-independent projection of the output records
	pub fn out_proj(&self) -> Vec<String> {
		let mut v: Vec<String> = self
			.outputs
			.iter()
			.map(|o| {
				format!(
					"{}|{}|{:?}|{}|{}|{}|{}|{}|{:?}",
					o.root_key_id.to_hex(),
					o.key_id.to_hex(),
					o.mmr_index,
					o.value,
					o.status,
					o.height,
					o.lock_height,
					o.is_coinbase,
					o.tx_log_entry
				)
			})
			.collect();
		v.sort();
		v
	}
	pub fn tx_proj(&self) -> Vec<String> {
		let mut v: Vec<String> = self.txs.iter().map(|t| tx_line(t)).collect();
		v.sort();
		v
	}
	/// everything the wallet stores that the snapshot sees, as sorted lines
	pub fn full_proj(&self) -> Vec<String> {
		let mut v = self.out_proj();
		v.extend(self.tx_proj());
		for a in &self.accts {
			v.push(format!("acct|{}|{}", a.label, a.path.to_hex()));
		}
		for (k, n) in &self.child_idx {
			v.push(format!("child|{}|{}", k, n));
		}
		v
	}
}

pub fn tx_line(t: &TxLogEntry) -> String {
	format!(
		"tx|{}|{}|{:?}|{:?}|{}|{}|{}|{}|{}|{:?}|{:?}|{:?}|{}|{:?}|{}",
		t.parent_key_id.to_hex(),
		t.id,
		t.tx_slate_id,
		t.tx_type,
		t.confirmed,
		t.num_inputs,
		t.num_outputs,
		t.amount_credited,
		t.amount_debited,
		t.fee.map(|f| f.fee()),
		t.ttl_cutoff_height,
		t.kernel_excess.map(|e| e.to_hex()),
		t.creation_ts.timestamp_millis(),
		t.confirmation_ts.map(|c| c.timestamp_millis()),
		t.payment_proof.is_some(),
	)
}

pub struct World {
	pub dir: String,
	pub chain: ChainCtl,
	pub wallets: Vec<WalletH>,
	truth_cache: BTreeMap<Vec<u8>, Option<(usize, u64, Identifier)>>,
}

impl World {
	pub fn new(dir: &str, rng: &mut SimRng) -> World {
		let _ = std::fs::remove_dir_all(dir);
		std::fs::create_dir_all(dir).unwrap();
		let miner_seed = rng.bytes(32);
		let chain = ChainCtl::new(&format!("{}/chain", dir), &miner_seed);
		World {
			dir: dir.to_owned(),
			chain,
			wallets: vec![],
			truth_cache: BTreeMap::new(),
		}
	}

	fn make_inst(&self, top_dir: &str) -> WInst {
		let mut wallet = Box::new(
			DefaultWalletImpl::<'static, SimNodeClient>::new(self.chain.node.clone()).unwrap(),
		) as Box<dyn WalletInst<'static, LC, SimNodeClient, ExtKeychain>>;
		let lc = wallet.lc_provider().unwrap();
		let _ = lc.set_top_level_directory(top_dir);
		Arc::new(Mutex::new(wallet))
	}

	/// Create a new wallet (seed from the simulator's PRNG via mnemonic, or drawn
	/// by the wallet itself from the entropy seam when `mnemonic` is None).
	pub fn create_wallet(
		&mut self,
		mnemonic: Option<String>,
		password: &str,
		use_mask: bool,
	) -> Result<usize, Error> {
		let idx = self.wallets.len();
		let top_dir = format!("{}/w{}", self.dir, idx);
		let inst = self.make_inst(&top_dir);
		{
			let mut l = inst.lock();
			let lc = l.lc_provider()?;
			lc.create_wallet(
				None,
				mnemonic.clone().map(ZeroingString::from),
				32,
				ZeroingString::from(password),
				false,
			)?;
		}
		let mn = {
			let mut l = inst.lock();
			let lc = l.lc_provider()?;
			let m = lc.get_mnemonic(None, ZeroingString::from(password))?;
			(&*m).to_owned()
		};
		let seed = grin_keychain::mnemonic::to_entropy(&mn).unwrap();
		let kc = ExtKeychain::from_seed(&seed, false).unwrap();
		drop(inst);
		self.wallets.push(WalletH {
			idx,
			top_dir,
			password: password.to_owned(),
			seed,
			mnemonic: mn,
			use_mask,
			mask: None,
			inst: None,
			owner: None,
			foreign: None,
			kc,
			opens: 0,
		});
		self.open(idx)?;
		Ok(idx)
	}

	/// A second wallet directory restored from the mnemonic of wallet `src`
	pub fn restore_wallet(&mut self, src: usize) -> Result<usize, Error> {
		let mn = self.wallets[src].mnemonic.clone();
		let pw = self.wallets[src].password.clone();
		self.create_wallet(Some(mn), &pw, false)
	}

	pub fn open(&mut self, idx: usize) -> Result<(), Error> {
		let top = self.wallets[idx].top_dir.clone();
		let inst = self.make_inst(&top);
		let mask = {
			let mut l = inst.lock();
			let lc = l.lc_provider()?;
			lc.open_wallet(
				None,
				ZeroingString::from(self.wallets[idx].password.as_str()),
				self.wallets[idx].use_mask,
				false,
			)?
		};
		let owner = Arc::new(Owner::new(inst.clone(), None));
		let foreign = Arc::new(Foreign::new(inst.clone(), mask.clone(), None, false));
		let w = &mut self.wallets[idx];
		w.inst = Some(inst);
		w.owner = Some(owner);
		w.foreign = Some(foreign);
		w.mask = mask;
		w.opens += 1;
		Ok(())
	}

	/// Drop every handle to the wallet (what survives is its directory)
	pub fn drop_handles(&mut self, idx: usize) {
		let w = &mut self.wallets[idx];
		w.owner = None;
		w.foreign = None;
		w.inst = None;
		w.mask = None;
	}

	pub fn restart(&mut self, idx: usize) -> Result<(), Error> {
		self.drop_handles(idx);
		self.open(idx)
	}

	pub fn is_open(&self, idx: usize) -> bool {
		self.wallets[idx].inst.is_some()
	}

	pub fn owner(&self, idx: usize) -> Arc<OwnerApi> {
		self.wallets[idx].owner.as_ref().unwrap().clone()
	}
	pub fn foreign(&self, idx: usize) -> Arc<ForeignApi> {
		self.wallets[idx].foreign.as_ref().unwrap().clone()
	}
	pub fn mask(&self, idx: usize) -> Option<SecretKey> {
		self.wallets[idx].mask.clone()
	}

	/// Observer access to the backend (never goes through the API).
	pub fn with_backend<R>(
		&self,
		idx: usize,
		f: impl FnOnce(&mut Backend) -> Result<R, Error>,
	) -> Result<R, Error> {
		let inst = self.wallets[idx]
			.inst
			.as_ref()
			.ok_or_else(|| Error::GenericError("wallet handle closed".into()))?
			.clone();
		let mut l = inst.lock();
		let lc = l.lc_provider()?;
		let w = lc.wallet_inst()?;
		f(&mut **w)
	}

	pub fn snap(&self, idx: usize) -> Snap {
		let r = self.with_backend(idx, |w| {
			let outputs: Vec<OutputData> = w.iter().collect();
			let txs: Vec<TxLogEntry> = w.tx_log_iter().collect();
			let accts: Vec<AcctPathMapping> = w.acct_path_iter().collect();
			let active_path = w.parent_key_id();
			let mut child_idx = BTreeMap::new();
			let mut conf_height = BTreeMap::new();
			for a in &accts {
				child_idx.insert(a.path.to_hex(), w.current_child_index(&a.path)?);
				w.set_parent_key_id(a.path.clone());
				conf_height.insert(a.path.to_hex(), w.last_confirmed_height()?);
			}
			w.set_parent_key_id(active_path.clone());
			let active = accts
				.iter()
				.find(|a| a.path == active_path)
				.map(|a| a.label.clone())
				.unwrap_or_default();
			Ok(Snap {
				open: true,
				outputs,
				txs,
				accts,
				child_idx,
				conf_height,
				active,
			})
		});
		match r {
			Ok(s) => s,
			Err(_) => Snap::default(),
		}
	}

	pub fn get_context(&self, idx: usize, slate_id: &[u8]) -> Option<Context> {
		let mask = self.mask(idx);
		self.with_backend(idx, |w| w.get_private_context(mask.as_ref(), slate_id))
			.ok()
	}

	pub fn info(&self, idx: usize, acct: &Identifier, min_conf: u64) -> Option<WalletInfo> {
		// read-only: computed by the wallet's own retrieve_info through the API
		// for the active account; for others the simulator switches temporarily
		let owner = self.owner(idx);
		let mask = self.mask(idx);
		let cur = self
			.with_backend(idx, |w| Ok(w.parent_key_id()))
			.ok()?;
		let _ = self.with_backend(idx, |w| {
			w.set_parent_key_id(acct.clone());
			Ok(())
		});
		let r = owner
			.retrieve_summary_info(mask.as_ref(), false, min_conf)
			.ok()
			.map(|x| x.1);
		let _ = self.with_backend(idx, |w| {
			w.set_parent_key_id(cur);
			Ok(())
		});
		r
	}

	/// The chain's truth for a wallet seed: its outputs in the UTXO set, found by
	/// the simulator's own range-proof rewind.
	pub fn truth(&mut self, idx: usize) -> Vec<TruthOut> {
		let utxos = self.chain.utxos();
		let mut res = vec![];
		for (commit, prf, is_cb, height, mmr) in utxos {
			let key = commit.0.to_vec();
			if !self.truth_cache.contains_key(&key) {
				let mut found = None;
				for w in &self.wallets {
					let b = proof::ProofBuilder::new(&w.kc);
					if let Ok(Some((value, key_id, _))) =
						proof::rewind(w.kc.secp(), &b, commit, None, prf)
					{
						// several handles may share a seed (restore): attribute to the
						// lowest index; `truth` compares by seed below
						found = Some((w.idx, value, key_id));
						break;
					}
				}
				self.truth_cache.insert(key.clone(), found);
			}
			if let Some(Some((owner, value, key_id))) = self.truth_cache.get(&key) {
				if self.wallets[*owner].seed == self.wallets[idx].seed {
					res.push(TruthOut {
						commit,
						value: *value,
						height,
						is_coinbase: is_cb,
						key_id: key_id.clone(),
						acct: key_id.parent_path(),
						mmr,
					});
				}
			}
		}
		res
	}

	pub fn commit_of(&self, idx: usize, o: &OutputData) -> pedersen::Commitment {
		match &o.commit {
			Some(c) => pedersen::Commitment::from_vec(grin_util::from_hex(c).unwrap()),
			None => self.wallets[idx]
				.kc
				.commit(
					o.value,
					&o.key_id,
					grin_keychain::SwitchCommitmentType::Regular,
				)
				.unwrap(),
		}
	}

	/// Raw content of the wallet's LMDB (every key/value), read from a copy of the
	/// database directory so the live environment is never opened twice.
	pub fn raw_db(&self, idx: usize) -> Vec<(Vec<u8>, Vec<u8>)> {
		let src = format!("{}/wallet_data/db", self.wallets[idx].top_dir);
		let dst = format!("{}/rawcopy-{}", self.dir, idx);
		let _ = std::fs::remove_dir_all(&dst);
		let _ = std::fs::create_dir_all(format!("{}/lmdb", dst));
		for f in ["data.mdb", "lock.mdb"].iter() {
			let _ = std::fs::copy(format!("{}/lmdb/{}", src, f), format!("{}/lmdb/{}", dst, f));
		}
		let mut res = vec![];
		if let Ok(store) = grin_store::Store::new(&dst, None, Some("db"), None) {
			// LMDB refuses a zero-length key, so "every key" is the union over all
			// one-byte prefixes
			for b in 0u16..=255 {
				if let Ok(it) = store.iter(&[b as u8], |k, v| Ok((k.to_vec(), v.to_vec()))) {
					for kv in it {
						res.push(kv);
					}
				}
			}
		}
		let _ = std::fs::remove_dir_all(&dst);
		res
	}

	/// digest of everything durable in the wallet directory: LMDB content,
	/// stored transactions, seed files
	pub fn dir_digest(&self, idx: usize) -> u64 {
		let mut h = 0u64;
		let db = self.raw_db(idx);
		if db.is_empty() && std::path::Path::new(&format!("{}/wallet_data/db/lmdb/data.mdb", self.wallets[idx].top_dir)).exists() {
			// an initialised wallet always holds at least its default account record: an
			// empty read means the digest would be blind to the database
			eprintln!("HARNESS-ERROR: raw database read of wallet {} returned nothing", idx);
			std::process::exit(2);
		}
		for (k, v) in db {
			h = crate::rng::mix(&[h, crate::rng::hash_bytes(&k), crate::rng::hash_bytes(&v)]);
		}
		let base = format!("{}/wallet_data", self.wallets[idx].top_dir);
		let mut files: Vec<std::path::PathBuf> = vec![];
		if let Ok(rd) = std::fs::read_dir(format!("{}/saved_txs", base)) {
			for e in rd.flatten() {
				files.push(e.path());
			}
		}
		if let Ok(rd) = std::fs::read_dir(&base) {
			for e in rd.flatten() {
				if e.path().is_file() {
					files.push(e.path());
				}
			}
		}
		files.sort();
		for f in files {
			let name = f.file_name().unwrap().to_string_lossy().to_string();
			let content = std::fs::read(&f).unwrap_or_default();
			h = crate::rng::mix(&[h, crate::rng::hash_str(&name), crate::rng::hash_bytes(&content)]);
		}
		h
	}

	/// everything durable in the wallet directory, item by item (for reports: which kind
	/// of record a call changed): LMDB records keyed "db:<prefix letter>:<key hex>", files
	/// keyed "file:<name>"; values are content hashes
	pub fn dir_state(&self, idx: usize) -> BTreeMap<String, u64> {
		let mut m = BTreeMap::new();
		let db = self.raw_db(idx);
		if db.is_empty() && std::path::Path::new(&format!("{}/wallet_data/db/lmdb/data.mdb", self.wallets[idx].top_dir)).exists() {
			eprintln!("HARNESS-ERROR: raw database read of wallet {} returned nothing", idx);
			std::process::exit(2);
		}
		for (k, v) in db {
			let letter = k.first().map(|b| *b as char).unwrap_or('?');
			m.insert(format!("db:{}:{}", letter, grin_util::ToHex::to_hex(&k)), crate::rng::hash_bytes(&v));
		}
		let base = format!("{}/wallet_data", self.wallets[idx].top_dir);
		for dir in [format!("{}/saved_txs", base), base.clone()].iter() {
			if let Ok(rd) = std::fs::read_dir(dir) {
				for e in rd.flatten() {
					if e.path().is_file() {
						let name = e.path().file_name().unwrap().to_string_lossy().to_string();
						let kind = if dir.ends_with("saved_txs") { "stored_tx" } else { "file" };
						let content = std::fs::read(e.path()).unwrap_or_default();
						m.insert(format!("{}:{}", kind, name), crate::rng::hash_bytes(&content));
					}
				}
			}
		}
		m
	}

	/// which kinds of durable items differ between two directory states, e.g.
	/// "index+output+log" (record kinds by LMDB prefix, "stored_tx", "file")
	pub fn dir_diff_kinds(a: &BTreeMap<String, u64>, b: &BTreeMap<String, u64>) -> String {
		let mut kinds: std::collections::BTreeSet<&'static str> = Default::default();
		let name = |k: &str| -> &'static str {
			if k.starts_with("db:o:") {
				"output"
			} else if k.starts_with("db:d:") {
				"index"
			} else if k.starts_with("db:c:") {
				"confirmed_height"
			} else if k.starts_with("db:p:") {
				"context"
			} else if k.starts_with("db:t:") {
				"log"
			} else if k.starts_with("db:i:") {
				"log_id"
			} else if k.starts_with("db:a:") {
				"account"
			} else if k.starts_with("db:") {
				"other_record"
			} else if k.starts_with("stored_tx:") {
				"stored_tx"
			} else {
				"file"
			}
		};
		for (k, v) in a {
			if b.get(k) != Some(v) {
				kinds.insert(name(k));
			}
		}
		for k in b.keys() {
			if !a.contains_key(k) {
				kinds.insert(name(k));
			}
		}
		kinds.into_iter().collect::<Vec<_>>().join("+")
	}

	pub fn close_all(&mut self) {
		for i in 0..self.wallets.len() {
			self.drop_handles(i);
		}
		self.chain.close();
	}
}

pub fn is_live(t: &TxLogEntry) -> bool {
	!t.confirmed
		&& (t.tx_type == TxLogEntryType::TxSent
			|| t.tx_type == TxLogEntryType::TxReceived
			|| t.tx_type == TxLogEntryType::TxReverted)
}

pub fn status_str(s: &OutputStatus) -> &'static str {
	match s {
		OutputStatus::Unconfirmed => "Unconfirmed",
		OutputStatus::Unspent => "Unspent",
		OutputStatus::Locked => "Locked",
		OutputStatus::Spent => "Spent",
		OutputStatus::Reverted => "Reverted",
	}
}
