//! C12 — secrets never leave the wallet in clear; signing nonces are never reused.

use crate::gen::{GenCfg, HistGen};
use crate::hooks::{Fault, FaultKind};
use crate::ops::{Exec, Op, OpRes, Step, StepOut, LAST_PANIC};
use crate::run::{sample_trace, Prop, Run, Violation};
use grin_util::secp::key::{PublicKey, SecretKey};
use grin_util::{static_secp_instance, ToHex, ZeroingString};
use ring::{aead, pbkdf2};
use serde_json::{json, Value};
use std::collections::BTreeMap;
use std::num::NonZeroU32;
use std::panic::{catch_unwind, AssertUnwindSafe};

struct Secret {
	what: String,
	patterns: Vec<(String, Vec<u8>)>,
}

pub struct C12 {
	gen: HistGen,
	secrets: Vec<Secret>,
	known_ctx: Vec<uuid::Uuid>,
	/// (wallet, pub nonce | pub excess hex) -> slate id
	nonces: BTreeMap<(usize, String), uuid::Uuid>,
	scanned_msgs: usize,
	pw_changes: BTreeMap<usize, String>,
	lifecycle_done: u32,
	/// every password each wallet's seed file was ever saved under
	pw_hist: BTreeMap<usize, Vec<String>>,
	test_nonce_pub: String,
	reported: std::collections::BTreeSet<String>,
	/// (wallet, pub nonce hex) -> (partial signature hex, slate id, message) the nonce signed
	signed: BTreeMap<(usize, String), (String, uuid::Uuid, usize)>,
	/// scripted: the recipient answers the same slate twice (receive, cancel, receive
	/// again: two replies with different nonces), the sender finalizes one reply and
	/// then the other
	refin: Option<Refin>,
	refins_left: u32,
}

struct Refin {
	a: usize,
	b: usize,
	stage: u32,
	m1: Option<usize>,
	m2a: Option<usize>,
	m2b: Option<usize>,
}

fn encodings(what: &str, raw: &[u8]) -> Vec<(String, Vec<u8>)> {
	let mut v = vec![];
	v.push((format!("{}:raw", what), raw.to_vec()));
	let hex = raw.to_vec().to_hex();
	v.push((format!("{}:hex", what), hex.clone().into_bytes()));
	v.push((format!("{}:HEX", what), hex.to_uppercase().into_bytes()));
	v.push((format!("{}:base64", what), base64::encode(raw).into_bytes()));
	let arr: Vec<String> = raw.iter().map(|b| b.to_string()).collect();
	v.push((format!("{}:json_array", what), format!("[{}]", arr.join(",")).into_bytes()));
	v.push((format!("{}:json_array_spaced", what), format!("[{}]", arr.join(", ")).into_bytes()));
	v
}

fn find(hay: &[u8], needle: &[u8]) -> bool {
	if needle.is_empty() || hay.len() < needle.len() {
		return false;
	}
	let first = needle[0];
	let mut i = 0;
	let end = hay.len() - needle.len();
	while i <= end {
		if hay[i] == first && &hay[i..i + needle.len()] == needle {
			return true;
		}
		i += 1;
	}
	false
}

/// independent re-implementation of the seed-file decryption
fn decrypt_seed_file(content: &str, password: &str) -> Option<Vec<u8>> {
	let v: Value = serde_json::from_str(content).ok()?;
	let enc = grin_util::from_hex(v["encrypted_seed"].as_str()?).ok()?;
	let salt = grin_util::from_hex(v["salt"].as_str()?).ok()?;
	let nonce = grin_util::from_hex(v["nonce"].as_str()?).ok()?;
	if nonce.len() != 12 {
		return None;
	}
	let mut key = [0u8; 32];
	pbkdf2::derive(
		pbkdf2::PBKDF2_HMAC_SHA512,
		NonZeroU32::new(100).unwrap(),
		&salt,
		password.as_bytes(),
		&mut key,
	);
	let unbound = aead::UnboundKey::new(&aead::CHACHA20_POLY1305, &key).ok()?;
	let k = aead::LessSafeKey::new(unbound);
	let mut n = [0u8; 12];
	n.copy_from_slice(&nonce);
	let mut buf = enc;
	let plain = k
		.open_in_place(aead::Nonce::assume_unique_for_key(n), aead::Aad::from(&[]), &mut buf)
		.ok()?;
	Some(plain.to_vec())
}

fn files_under(dir: &str, out: &mut Vec<std::path::PathBuf>) {
	if let Ok(rd) = std::fs::read_dir(dir) {
		for e in rd.flatten() {
			let p = e.path();
			if p.is_dir() {
				files_under(&p.to_string_lossy(), out);
			} else {
				out.push(p);
			}
		}
	}
}

impl C12 {
	pub fn new(run: &mut Run) -> C12 {
		let mut cfg = GenCfg::swarm(run);
		cfg.boundary_args = false;
		cfg.allow_late_lock = true;
		cfg.allow_proof = true;
		cfg.w_new_invoice += 3;
		cfg.w_restart = 1 + run.rng.below(3) as u32;
		cfg.encodings = vec![
			crate::ops::Enc::Json,
			crate::ops::Enc::Armor,
			crate::ops::Enc::ArmorEnc,
			crate::ops::Enc::Mem,
		];
		let gen = HistGen::new(cfg, run);
		let test_nonce_pub = {
			let secp = static_secp_instance();
			let secp = secp.lock();
			let sk = SecretKey::from_slice(&secp, &[1; 32]).unwrap();
			PublicKey::from_secret_key(&secp, &sk)
				.unwrap()
				.serialize_vec(&secp, true)
				.to_vec()
				.to_hex()
		};
		C12 {
			gen,
			secrets: vec![],
			known_ctx: vec![],
			nonces: BTreeMap::new(),
			scanned_msgs: 0,
			pw_changes: BTreeMap::new(),
			lifecycle_done: 0,
			pw_hist: BTreeMap::new(),
			test_nonce_pub,
			reported: std::collections::BTreeSet::new(),
			signed: BTreeMap::new(),
			refin: None,
			refins_left: if run.rng.chance(1, 2) { 1 + run.rng.below(2) as u32 } else { 0 },
		}
	}

	fn learn_secrets(&mut self, run: &Run) {
		// seeds and mnemonics
		for w in &run.ex.world.wallets {
			let tag = format!("seed_w{}", w.idx);
			if !self.secrets.iter().any(|s| s.what == tag) {
				let mut p = encodings(&tag, &w.seed);
				p.push((format!("mnemonic_w{}", w.idx), w.mnemonic.clone().into_bytes()));
				self.secrets.push(Secret { what: tag, patterns: p });
			}
		}
		// every private context that exists (observer privilege)
		for d in &run.model.deals {
			for w in [Some(d.initiator), d.payer, d.payee].iter().flatten() {
				if *w >= run.ex.world.wallets.len() || !run.ex.world.is_open(*w) {
					continue;
				}
				let tag = format!("ctx_w{}_{}", w, d.id);
				if self.secrets.iter().any(|s| s.what.starts_with(&tag)) {
					continue;
				}
				if let Some(c) = run.ex.world.get_context(*w, d.id.as_bytes()) {
					let mut pats = vec![];
					pats.extend(encodings(&format!("{}:sec_key", tag), &c.sec_key.0));
					pats.extend(encodings(&format!("{}:sec_nonce", tag), &c.sec_nonce.0));
					pats.extend(encodings(&format!("{}:initial_sec_key", tag), &c.initial_sec_key.0));
					pats.extend(encodings(&format!("{}:initial_sec_nonce", tag), &c.initial_sec_nonce.0));
					// the two fields the backend masks before storing: their own JSON
					// members (the leading quote tells them from initial_sec_*, which hold
					// the same bytes for an initiator)
					for (field, val) in [("sec_key", &c.sec_key.0), ("sec_nonce", &c.sec_nonce.0)].iter() {
						let arr: Vec<String> = val.iter().map(|b| b.to_string()).collect();
						pats.push((
							format!("{}:{}:stored_member_unmasked", tag, field),
							format!("\"{}\":[{}]", field, arr.join(",")).into_bytes(),
						));
					}
					self.secrets.push(Secret { what: tag, patterns: pats });
					self.known_ctx.push(d.id);
				}
			}
		}
	}

	fn scan(&self, hay: &[u8]) -> Option<String> {
		for s in &self.secrets {
			for (name, p) in &s.patterns {
				if find(hay, p) {
					return Some(name.clone());
				}
			}
		}
		None
	}

	/// crash-point enumeration over change_password (in place, restoring the
	/// directory between variants); returns a violating step if any
	fn lifecycle_enum(&mut self, run: &mut Run) -> Option<Step> {
		let nw = run.ex.world.wallets.len();
		if nw == 0 {
			return None;
		}
		let w = run.rng.idx(nw);
		let new_pw = format!("new{}pw\u{00e9}", run.rng.below(1000));
		let base = json!({"w": w, "new": new_pw});
		let opname = if run.rng.chance(1, 2) { "change_password" } else { "recover" };
		let target = Step::new(Op::Custom {
			name: opname.into(),
			args: base.clone(),
		});
		// fault-free twin to list the points
		let backup = format!("{}/backup-lc-w{}", run.ex.world.dir, w);
		let top = run.ex.world.wallets[w].top_dir.clone();
		let old_pw = run.ex.world.wallets[w].password.clone();
		run.ex.world.drop_handles(w);
		super::c12::copy_dir(&top, &backup);
		let restore = |run: &mut Run| {
			run.ex.world.drop_handles(w);
			super::c12::copy_dir(&backup, &top);
			run.ex.world.wallets[w].password = old_pw.clone();
		};
		let mut handler = |e: &mut Exec, n: &str, a: &Value| Self::lifecycle_op(e, n, a);
		let out = run.ex.exec(&target, &mut handler);
		let points = out.visited.clone();
		let files = crate::hooks::visited_files();
		restore(run);
		let mut variants = vec![];
		for p in &points {
			let mut it = p.split('#');
			let name = it.next().unwrap_or("").to_owned();
			let nth: u32 = it.next().and_then(|x| x.parse().ok()).unwrap_or(1);
			variants.push(Fault { point: name.clone(), nth, kind: FaultKind::Crash });
			variants.push(Fault { point: name.clone(), nth, kind: FaultKind::Fail });
			if let Some(len) = files.get(p) {
				for l in [0u64, 1, len / 2, len.saturating_sub(1)].iter() {
					variants.push(Fault { point: name.clone(), nth, kind: FaultKind::TruncCrash(*l) });
				}
			}
		}
		for f in variants {
			let mut st = target.clone();
			st.fault = Some(f.clone());
			let mut handler = |e: &mut Exec, n: &str, a: &Value| Self::lifecycle_op(e, n, a);
			let out = run.ex.exec(&st, &mut handler);
			run.cov.case(&format!("{}|{}#{}|{:?}", opname, f.point, f.nth, f.kind), out.fault_fired);
			if out.fault_fired {
				run.cov.fault(&format!("{}:{}", f.point, crate::run::kind_name(&f.kind)));
			}
			let bad = Self::seed_recoverable(run, w, &old_pw, &new_pw).is_some();
			restore(run);
			if bad {
				let _ = run.ex.world.open(w);
				return Some(st);
			}
		}
		let _ = run.ex.world.open(w);
		None
	}

	/// after an interrupted lifecycle operation: some seed file decrypts to the
	/// original seed under the old or the new password; opening never panics
	fn seed_recoverable(run: &mut Run, w: usize, old_pw: &str, new_pw: &str) -> Option<(String, String)> {
		let dir = format!("{}/wallet_data", run.ex.world.wallets[w].top_dir);
		let seed = run.ex.world.wallets[w].seed.clone();
		let mut found = false;
		if let Ok(rd) = std::fs::read_dir(&dir) {
			for e in rd.flatten() {
				let name = e.file_name().to_string_lossy().to_string();
				if name.starts_with("wallet.seed") {
					if let Ok(c) = std::fs::read_to_string(e.path()) {
						for pw in [old_pw, new_pw].iter() {
							if decrypt_seed_file(&c, pw).as_ref() == Some(&seed) {
								found = true;
							}
						}
					}
				}
			}
		}
		if !found {
			return Some((
				"seed_lost".into(),
				"no wallet.seed* file decrypts to the original seed under the old or the new password".into(),
			));
		}
		// opening with either password answers Ok or Err, never panics
		for pw in [old_pw, new_pw].iter() {
			run.ex.world.drop_handles(w);
			run.ex.world.wallets[w].password = (*pw).to_owned();
			*LAST_PANIC.lock().unwrap() = None;
			let r = catch_unwind(AssertUnwindSafe(|| run.ex.world.open(w)));
			if r.is_err() {
				let p = LAST_PANIC.lock().unwrap().take().unwrap_or_default();
				return Some((
					format!("open_panicked@{}", p.split(" :: ").next().unwrap_or("?")),
					p,
				));
			}
		}
		// leave the wallet open under whichever password works
		for pw in [old_pw, new_pw].iter() {
			run.ex.world.drop_handles(w);
			run.ex.world.wallets[w].password = (*pw).to_owned();
			if run.ex.world.open(w).is_ok() {
				break;
			}
		}
		None
	}

	fn lifecycle_op(ex: &mut Exec, name: &str, a: &Value) -> OpRes {
		let w = a["w"].as_u64().unwrap_or(0) as usize;
		if w >= ex.world.wallets.len() {
			return OpRes::Skipped("unavailable".into());
		}
		match name {
			"change_password" => {
				let new_pw = a["new"].as_str().unwrap_or("x").to_owned();
				let old = ex.world.wallets[w].password.clone();
				if !ex.world.is_open(w) {
					if ex.world.open(w).is_err() {
						return OpRes::Skipped("cannot open".into());
					}
				}
				let owner = ex.world.owner(w);
				let r = owner.change_password(None, ZeroingString::from(old.as_str()), ZeroingString::from(new_pw.as_str()));
				match r {
					Ok(_) => {
						ex.world.wallets[w].password = new_pw;
						OpRes::Ok { new_msg: None, note: String::new(), validated: None, new_wallet: None }
					}
					Err(e) => OpRes::Err(format!("{}", e)),
				}
			}
			"recover" => {
				// recover_from_mnemonic with the wallet's own phrase under a new password
				let new_pw = a["new"].as_str().unwrap_or("x").to_owned();
				let mn = ex.world.wallets[w].mnemonic.clone();
				if !ex.world.is_open(w) {
					if ex.world.open(w).is_err() {
						return OpRes::Skipped("cannot open".into());
					}
				}
				let inst = ex.world.wallets[w].inst.as_ref().unwrap().clone();
				let r = {
					let mut l = inst.lock();
					match l.lc_provider() {
						Ok(lc) => lc.recover_from_mnemonic(ZeroingString::from(mn.as_str()), ZeroingString::from(new_pw.as_str())),
						Err(e) => Err(e),
					}
				};
				match r {
					Ok(_) => {
						ex.world.wallets[w].password = new_pw;
						OpRes::Ok { new_msg: None, note: String::new(), validated: None, new_wallet: None }
					}
					Err(e) => OpRes::Err(format!("{}", e)),
				}
			}
			"open_with" => {
				// try a wrong password against the seed file through the wallet's own API
				let pw = a["password"].as_str().unwrap_or("").to_owned();
				if !ex.world.is_open(w) {
					return OpRes::Skipped("closed".into());
				}
				let owner = ex.world.owner(w);
				match owner.get_mnemonic(None, ZeroingString::from(pw.as_str())) {
					Ok(m) => OpRes::Ok { new_msg: None, note: (&*m).to_owned(), validated: None, new_wallet: None },
					Err(e) => OpRes::Err(format!("{}", e)),
				}
			}
			_ => OpRes::Skipped("unknown".into()),
		}
	}
}

pub fn copy_dir(src: &str, dst: &str) {
	let _ = std::fs::remove_dir_all(dst);
	let _ = std::fs::create_dir_all(dst);
	if let Ok(rd) = std::fs::read_dir(src) {
		for e in rd.flatten() {
			let p = e.path();
			let d = format!("{}/{}", dst, e.file_name().to_string_lossy());
			if p.is_dir() {
				copy_dir(&p.to_string_lossy(), &d);
			} else {
				let _ = std::fs::copy(&p, &d);
			}
		}
	}
}

impl C12 {
	fn refin_step(&mut self, run: &mut Run) -> Option<Step> {
		let r = self.refin.as_mut()?;
		let op = match r.stage {
			0 => {
				let mut a = crate::ops::SendArgs::simple(run.rng.range(1, 2) * 1_000_000_000 + run.rng.below(1000));
				a.min_conf = 1;
				a.max_outputs = 500;
				a.num_change = 1;
				a.late_lock = run.rng.chance(2, 3);
				Op::InitSend { w: r.a, args: a }
			}
			1 => Op::Receive { w: r.b, m: r.m1?, dest: None, enc: crate::ops::Enc::Mem },
			2 => Op::Cancel { w: r.b, m: Some(r.m1?), id: None },
			3 => Op::Receive { w: r.b, m: r.m1?, dest: None, enc: crate::ops::Enc::Mem },
			4 => {
				// a plain send reserves before it finalizes
				let late = matches!(run.trace.iter().rev().find_map(|s| match &s.op { Op::InitSend { args, .. } => Some(args.late_lock), _ => None }), Some(true));
				if late {
					r.stage += 1;
					Op::Finalize { w: r.a, m: r.m2a?, foreign: run.rng.chance(1, 3) }
				} else {
					Op::Lock { w: r.a, m: r.m1? }
				}
			}
			5 => Op::Finalize { w: r.a, m: r.m2a?, foreign: run.rng.chance(1, 3) },
			6 => {
				run.cov.probe("second_reply_to_a_finalized_slate_delivered");
				Op::Finalize { w: r.a, m: r.m2b?, foreign: run.rng.chance(1, 3) }
			}
			_ => return None,
		};
		r.stage += 1;
		Some(Step::new(op))
	}
}

impl Prop for C12 {
	fn id(&self) -> &'static str {
		"C12"
	}

	fn custom(&mut self, ex: &mut Exec, name: &str, a: &Value) -> OpRes {
		Self::lifecycle_op(ex, name, a)
	}

	fn next(&mut self, run: &mut Run) -> Option<Step> {
		if self.refin.is_some() {
			match self.refin_step(run) {
				Some(s) => return Some(s),
				None => self.refin = None,
			}
		}
		if self.gen.setup_done && self.refins_left > 0 && run.rng.chance(1, 8) {
			let nw = run.ex.world.wallets.len();
			if nw >= 2 && !run.ex.world.chain.is_down() {
				let a = run.rng.idx(nw);
				let b = (a + 1 + run.rng.idx(nw - 1)) % nw;
				if run.ex.world.is_open(a) && run.ex.world.is_open(b) && HistGen::spendable(run, a) > 3_000_000_000 {
					self.refins_left -= 1;
					self.refin = Some(Refin { a, b, stage: 0, m1: None, m2a: None, m2b: None });
					run.cov.probe("two_replies_to_one_slate_script_started");
					if let Some(s) = self.refin_step(run) {
						return Some(s);
					}
					self.refin = None;
				}
			}
		}
		if self.gen.setup_done {
			let nw = run.ex.world.wallets.len();
			if self.lifecycle_done < 2 && run.rng.chance(1, 12) {
				self.lifecycle_done += 1;
				if let Some(st) = self.lifecycle_enum(run) {
					return Some(st);
				}
			}
			if run.rng.chance(1, 10) && nw > 0 {
				// wrong passwords: prefixes, case changes, unicode, long, empty
				let w = run.rng.idx(nw);
				let right = run.ex.world.wallets[w].password.clone();
				let mut cands = vec![
					format!("{}x", right),
					right.to_uppercase() + "A",
					right.chars().take(right.len().saturating_sub(1)).collect::<String>() + "\u{00fc}",
					"x".repeat(300),
					String::from(" "),
					right.clone(),
				];
				// passwords this seed file was saved under earlier (a backup file may
				// still be encrypted with one of them)
				for old in self.pw_hist.get(&w).cloned().unwrap_or_default() {
					if old != right {
						cands.push(old.clone());
						cands.push(old);
					}
				}
				let pw = run.rng.pick(&cands).clone();
				return Some(Step::new(Op::Custom {
					name: "open_with".into(),
					args: json!({"w": w, "password": pw}),
				}));
			}
			if run.rng.chance(1, 14) && nw > 0 {
				let w = run.rng.idx(nw);
				return Some(Step::new(Op::Custom {
					name: if run.rng.chance(1, 2) { "change_password".into() } else { "recover".into() },
					args: json!({"w": w, "new": format!("p{}", run.rng.below(100))}),
				}));
			}
		}
		self.gen.next(run)
	}

	fn after(&mut self, run: &mut Run, step: &Step, out: &StepOut) -> Vec<Violation> {
		let mut v = vec![];
		self.gen.feedback(run, step, out);
		if let Some(r) = self.refin.as_mut() {
			match (&step.op, out.new_msg) {
				(Op::InitSend { .. }, Some(m)) if r.stage == 1 => r.m1 = Some(m),
				(Op::Receive { .. }, Some(m)) if r.stage == 2 => r.m2a = Some(m),
				(Op::Receive { .. }, Some(m)) if r.stage == 4 => r.m2b = Some(m),
				_ => {}
			}
			// the script goes on after a refused second finalize (that is the expected
			// answer); any other failure ends it
			if !out.ok && r.stage < 7 {
				self.refin = None;
			}
		}
		for w in 0..run.ex.world.wallets.len() {
			let pw = run.ex.world.wallets[w].password.clone();
			let h = self.pw_hist.entry(w).or_default();
			if !h.contains(&pw) {
				h.push(pw);
			}
		}
		// password-change bookkeeping for replays (the custom handler updates the
		// world's password on success)
		if let Op::Custom { name, args } = &step.op {
			let w = args["w"].as_u64().unwrap_or(0) as usize;
			if name == "open_with" && !out.skipped && w < run.ex.world.wallets.len() {
				let pw = args["password"].as_str().unwrap_or("");
				let right = run.ex.world.wallets[w].password == pw;
				run.cov.case(&format!("open_with|{}|{}", right, out.ok), !right);
				if out.ok && !right {
					let sig = if out.note == run.ex.world.wallets[w].mnemonic {
						"wrong_password_opened_seed"
					} else {
						"wrong_password_yielded_other_seed"
					};
					v.push(run.viol(
						"seed_file_password",
						sig,
						format!("wallet {}: the seed file opened with a wrong password", w),
					));
					return v;
				}
				if !out.ok && right {
					v.push(run.viol(
						"seed_file_password",
						"right_password_refused",
						format!("wallet {}: the seed file did not open with its password: {:?}", w, out.err),
					));
					return v;
				}
				// independent decryption agrees
				let path = format!("{}/wallet_data/wallet.seed", run.ex.world.wallets[w].top_dir);
				if let Ok(c) = std::fs::read_to_string(&path) {
					let mine = decrypt_seed_file(&c, pw);
					if right && mine.as_ref() != Some(&run.ex.world.wallets[w].seed) {
						v.push(run.viol(
							"seed_file_password",
							"independent_decryption_disagrees",
							format!("wallet {}: PBKDF2-HMAC-SHA512(100)+ChaCha20-Poly1305 with the right password does not yield the seed", w),
						));
						return v;
					}
					if !right && mine.is_some() {
						v.push(run.viol(
							"seed_file_password",
							"independent_decryption_accepts_wrong_password",
							format!("wallet {}: the seed file authenticates under a wrong password", w),
						));
						return v;
					}
				}
			}
			if (name == "change_password" || name == "recover") && step.fault.is_some() && w < run.ex.world.wallets.len() {
				// an interrupted password change leaves the seed recoverable
				let new_pw = args["new"].as_str().unwrap_or("x").to_owned();
				let old_pw = run.ex.world.wallets[w].password.clone();
				if out.fault_fired || out.panic.is_some() {
					if let Some((sig, detail)) = Self::seed_recoverable(run, w, &old_pw, &new_pw) {
						v.push(run.viol(
							"interrupted_lifecycle",
							&format!("{}:{}", name, sig),
							format!("wallet {}: {} interrupted at {:?}: {}", w, name, step.fault, detail),
						));
						return v;
					}
				}
			}
		}
		// 1. nothing written to disk or put on the wire contains a secret
		self.learn_secrets(run);
		for i in self.scanned_msgs..run.ex.msgs.len() {
			let m = &run.ex.msgs[i];
			let js = crate::ops::slate_to_json(&m.slate);
			run.cov.case(&format!("msg|{}", crate::ops::state_name(&m.slate.state)), !self.secrets.is_empty());
			if let Some(name) = self.scan(js.as_bytes()) {
				v.push(run.viol(
					"no_secret_on_wire",
					&format!("secret_in_message:{}", name.split(':').skip(1).collect::<Vec<_>>().join(":")),
					format!("message {} ({}) contains {}", i, crate::ops::state_name(&m.slate.state), name),
				));
				return v;
			}
			// 4b. a signing nonce signs one message: the same public nonce of a wallet never
			// comes with two different partial signatures (two finalizations of one slate id
			// against different replies would show exactly that)
			if m.mutated.is_none() {
				let secp = static_secp_instance();
				let secp = secp.lock();
				let mut found: Vec<(usize, String, String)> = vec![];
				for p in &m.slate.participant_data {
					let n = p.public_nonce.serialize_vec(&secp, true).to_vec().to_hex();
					if let Some(sig) = &p.part_sig {
						let sg = sig.serialize_compact(&secp).to_vec().to_hex();
						for w in 0..run.ex.world.wallets.len() {
							if self.nonces.contains_key(&(w, format!("nonce:{}", n))) {
								found.push((w, n.clone(), sg.clone()));
							}
						}
					}
				}
				drop(secp);
				for (w, n, sg) in found {
					match self.signed.get(&(w, n.clone())) {
						Some((sg0, id0, m0)) if *sg0 != sg => {
							v.push(run.viol(
								"fresh_nonces",
								"nonce_signed_two_messages",
								format!(
									"wallet {}: the public nonce {} comes with two different partial signatures (message {} of slate {} and message {} of slate {})",
									w, n, m0, id0, i, m.slate.id
								),
							));
							return v;
						}
						Some(_) => {}
						None => {
							self.signed.insert((w, n), (sg, m.slate.id, i));
							run.cov.probe("partial_signature_recorded");
						}
					}
				}
			}
			// 4. nonce freshness
			if let Some(w) = m.from {
				if m.slate.participant_data.len() == 1 && m.mutated.is_none() {
					let secp = static_secp_instance();
					let secp = secp.lock();
					let p = &m.slate.participant_data[0];
					let n = p.public_nonce.serialize_vec(&secp, true).to_vec().to_hex();
					let x = p.public_blind_excess.serialize_vec(&secp, true).to_vec().to_hex();
					drop(secp);
					if n == self.test_nonce_pub {
						v.push(run.viol(
							"fresh_nonces",
							"fixed_test_nonce_used",
							format!("wallet {}: slate {} carries the fixed test nonce", w, m.slate.id),
						));
						return v;
					}
					for (kind, val) in [("nonce", n), ("excess", x)].iter() {
						let key = (w, format!("{}:{}", kind, val));
						match self.nonces.get(&key) {
							Some(id) if *id != m.slate.id => {
								v.push(run.viol(
									"fresh_nonces",
									&format!("public_{}_reused", kind),
									format!("wallet {}: slates {} and {} carry the same public {}", w, id, m.slate.id, kind),
								));
								return v;
							}
							_ => {
								self.nonces.insert(key, m.slate.id);
							}
						}
					}
					run.cov.probe("nonce_recorded");
				}
			}
		}
		self.scanned_msgs = run.ex.msgs.len();
		// files: every file under every wallet directory (raw LMDB pages included)
		if !matches!(step.op, Op::Clock { .. } | Op::Node { .. } | Op::Mutate { .. }) {
			for w in 0..run.ex.world.wallets.len() {
				let mut files = vec![];
				files_under(&run.ex.world.wallets[w].top_dir, &mut files);
				for f in files {
					let name = f.file_name().unwrap().to_string_lossy().to_string();
					if name == "lock.mdb" {
						continue;
					}
					if let Ok(content) = std::fs::read(&f) {
						run.cov.case(&format!("file|{}", if name.ends_with(".grintx") { "grintx" } else { &name }), !self.secrets.is_empty());
						// every distinct leak is reported once per run
						for s in &self.secrets {
							for (sname, p) in &s.patterns {
								if !find(&content, p) {
									continue;
								}
								let field = sname.split(':').skip(1).collect::<Vec<_>>().join(":");
								let fname = if name.ends_with(".grintx") { "grintx" } else { &name };
								let sig = if field.ends_with("stored_member_unmasked") {
									format!("secret_in_file:{}:private_context:{}", fname, field)
								} else if fname == "data.mdb"
									&& field.ends_with("json_array")
									&& sname.starts_with("ctx_")
								{
									// the stored private context (known finding): whichever of the
									// four key fields matched
									"secret_in_file:data.mdb:private_context_key:json_array".to_owned()
								} else {
									format!("secret_in_file:{}:{}", fname, field)
								};
								if self.reported.insert(sig.clone()) {
									v.push(run.viol(
										"no_secret_at_rest",
										&sig,
										format!("wallet {} file {} contains {}", w, name, sname),
									));
								}
							}
						}
					}
				}
			}
		}
		if run.trace.len() == 16 {
			let s = sample_trace(run, 16);
			run.cov.sample(s);
		}
		v
	}
}
