#!/bin/bash
# regress_scratch.sh [tier] [ids...] : like regress_seeded.sh, but in a scratch copy (a worktree of
# /repo's HEAD and a copy of /verif/sim whose path dependencies point at it), so that /repo and
# /verif stay free for other work while it runs. Result: /verif/seeded/REGRESSION.txt
set -u
TIER="${1:-quick}"; shift || true
R=/tmp/regress
rm -rf $R/verif; git -C /repo worktree remove --force $R/repo 2>/dev/null; git -C /repo worktree prune
mkdir -p $R/verif
git -C /repo worktree add --detach $R/repo HEAD >/dev/null 2>&1 || { echo "cannot create worktree"; exit 2; }
rsync -a --exclude target /verif/sim $R/verif/
cp -a /verif/sim/target $R/verif/sim/target 2>/dev/null
cp -a /verif/check /verif/known_findings.json $R/verif/
mkdir -p $R/verif/replays $R/verif/evidence
cp -a /verif/replays/known $R/verif/replays/
sed -i "s#\"/repo/#\"$R/repo/#g" $R/verif/sim/Cargo.toml
OUT=$R/REGRESSION.txt; : > $OUT
IDS="$@"
[ -z "$IDS" ] && IDS=$(ls ${SEEDED_DIR:-/verif/seeded} | grep -E "^C[0-9]+-[a-z0-9]+$")
for ID in $IDS; do
  d=${SEEDED_DIR:-/verif/seeded}/$ID
  [ -f $d/patch.diff ] || continue
  PROP=$(python3 -c "import json;print(json.load(open('$d/meta.json'))['property'])")
  if ! git -C $R/repo apply $d/patch.diff 2>/dev/null; then echo "$ID $PROP $TIER PATCH-DOES-NOT-APPLY" | tee -a $OUT; continue; fi
  LOG=$R/log-$ID.txt
  (cd $R/verif && ./check $PROP $TIER > $LOG 2>&1); RC=$?
  git -C $R/repo checkout -- .
  SIGS=$(grep -o "signature=[^ ]*" $LOG | sort -u | tr '\n' ' ')
  if [ "$RC" = "1" ]; then V=CAUGHT; elif [ "$RC" = "0" ]; then V=MISSED; else V="ERROR($RC)"; fi
  echo "$ID $PROP $TIER $V $SIGS" | tee -a $OUT
  rm -f $R/verif/replays/$PROP-*.json
done
cp $OUT ${REGRESSION_OUT:-/verif/seeded/REGRESSION.txt}
git -C /repo worktree remove --force $R/repo; rm -rf $R/verif
