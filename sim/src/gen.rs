//! Generic seeded history generator shared by the property modules.
//! It only ever looks at the simulator's model (deal stages, message list),
//! deterministic wallet state (balances, statuses) and its own PRNG.

use crate::hooks::{Fault, FaultKind};
use crate::model::DealKind;
use crate::ops::{Enc, Op, SendArgs, Step};
use crate::run::Run;
use grin_wallet_libwallet::OutputStatus;

#[derive(Clone, Debug)]
pub struct GenCfg {
	pub n_wallets: usize,
	pub extra_accounts: usize,
	pub fund_blocks: Vec<u32>,
	pub w_advance: u32,
	pub w_new_send: u32,
	pub w_new_invoice: u32,
	pub w_mine: u32,
	pub w_refresh: u32,
	pub w_repeat: u32,
	pub w_cancel: u32,
	pub w_restart: u32,
	pub w_account: u32,
	pub w_clock: u32,
	pub w_fork: u32,
	pub w_scan: u32,
	pub w_node_toggle: u32,
	pub w_mutate: u32,
	/// probability (per 100) that a wallet op carries a node-call failure
	pub p_node_fail: u64,
	/// probability (per 100) that a wallet op carries a storage fault
	pub p_fault: u64,
	pub fault_kinds: Vec<&'static str>,
	pub boundary_args: bool,
	pub allow_late_lock: bool,
	/// probability (per 100) that a new send is late-locked, when allowed
	pub p_late_lock: u64,
	pub allow_proof: bool,
	pub allow_ttl: bool,
	pub allow_self_send: bool,
	pub allow_multi_acct_args: bool,
	pub allow_cancel_after_post: bool,
	pub encodings: Vec<Enc>,
	pub max_inflight: usize,
	pub use_mask: bool,
	/// avoid list (known findings): never spend unconfirmed change (min_conf 0)
	pub avoid_spend_unconfirmed: bool,
	/// avoid list (known findings): an invoice is never paid by its own issuer
	pub avoid_self_invoice: bool,
}

impl GenCfg {
	/// swarm configuration: the first draws of a run choose its shape
	pub fn swarm(run: &mut Run) -> GenCfg {
		let r = &mut run.rng;
		let n_wallets = 2 + (r.chance(1, 3) as usize);
		let mut fund = vec![];
		for i in 0..n_wallets {
			let n = if i == 0 {
				r.range(2, 6)
			} else if r.chance(2, 3) {
				r.range(0, 4)
			} else {
				0
			};
			fund.push(n as u32);
		}
		let mut encs = vec![Enc::Mem, Enc::Json];
		if r.chance(1, 2) {
			encs.push(Enc::Armor);
		}
		if r.chance(1, 3) {
			encs.push(Enc::ArmorEnc);
		}
		GenCfg {
			n_wallets,
			extra_accounts: r.below(3) as usize,
			fund_blocks: fund,
			w_advance: 30 + r.below(40) as u32,
			w_new_send: 8 + r.below(12) as u32,
			w_new_invoice: r.below(8) as u32,
			w_mine: 6 + r.below(10) as u32,
			w_refresh: 4 + r.below(10) as u32,
			w_repeat: r.below(8) as u32,
			w_cancel: r.below(6) as u32,
			w_restart: r.below(4) as u32,
			w_account: r.below(4) as u32,
			w_clock: r.below(4) as u32,
			w_fork: 0,
			w_scan: 0,
			w_node_toggle: 0,
			w_mutate: 0,
			p_node_fail: 0,
			p_fault: 0,
			fault_kinds: vec![],
			boundary_args: r.chance(1, 3),
			allow_late_lock: r.chance(1, 2),
			p_late_lock: 20,
			allow_proof: r.chance(1, 2),
			allow_ttl: false,
			allow_self_send: r.chance(1, 3),
			allow_multi_acct_args: r.chance(1, 2),
			allow_cancel_after_post: false,
			encodings: encs,
			max_inflight: 1 + r.below(4) as usize,
			use_mask: false,
			avoid_spend_unconfirmed: !r.chance(1, 4),
			avoid_self_invoice: !r.chance(1, 4),
		}
	}
}

pub struct HistGen {
	pub cfg: GenCfg,
	pub setup: Vec<Step>,
	pub setup_done: bool,
	pub labels: Vec<Vec<String>>,
	/// swarm: every account of a wallet was funded alike (equal per-account counters)
	pub twins: bool,
	/// failed attempts to advance a deal (the generator gives up after two)
	pub fails: std::collections::BTreeMap<usize, u32>,
}

pub const GRIN: u64 = 1_000_000_000;

impl HistGen {
	pub fn new(cfg: GenCfg, run: &mut Run) -> HistGen {
		let mut setup = vec![];
		let mut labels = vec![];
		for i in 0..cfg.n_wallets {
			let mn = if run.rng.chance(1, 4) {
				let seed = run.rng.bytes(32);
				Some(grin_keychain::mnemonic::from_entropy(&seed).unwrap())
			} else {
				None
			};
			setup.push(Step::new(Op::CreateWallet {
				mnemonic: mn,
				password: if run.rng.chance(1, 3) {
					format!("pw{}", i)
				} else {
					String::new()
				},
				mask: cfg.use_mask,
			}));
			let mut l = vec!["default".to_owned()];
			for a in 0..cfg.extra_accounts {
				if run.rng.chance(2, 3) {
					let label = format!("acct{}", a + 1);
					setup.push(Step::new(Op::NewAccount {
						w: i,
						label: label.clone(),
					}));
					l.push(label);
				}
			}
			labels.push(l);
		}
		// swarm: "twin accounts" - every account of a wallet is funded with the same number
		// of blocks, so the per-account log-id and key-index counters run in lockstep and
		// entries / outputs of different accounts carry equal ids (what tells them apart is
		// the account alone)
		let twins = labels.iter().any(|l| l.len() > 1) && run.rng.chance(1, 3);
		for (i, n) in cfg.fund_blocks.iter().enumerate() {
			if twins && *n > 0 && labels[i].len() > 1 {
				for lab in labels[i].clone() {
					setup.push(Step::new(Op::SetAccount { w: i, label: lab }));
					setup.push(Step::new(Op::Mine {
						w: Some(i),
						n: (*n).min(3),
						txs: false,
					}));
				}
				let lab = run.rng.pick(&labels[i]).clone();
				setup.push(Step::new(Op::SetAccount { w: i, label: lab }));
				continue;
			}
			if *n > 0 {
				// sometimes fund a non-default account
				if labels[i].len() > 1 && run.rng.chance(1, 2) {
					let lab = run.rng.pick(&labels[i]).clone();
					setup.push(Step::new(Op::SetAccount { w: i, label: lab }));
				}
				setup.push(Step::new(Op::Mine {
					w: Some(i),
					n: *n,
					txs: false,
				}));
			}
		}
		setup.push(Step::new(Op::Mine {
			w: None,
			n: 3,
			txs: false,
		}));
		for i in 0..cfg.n_wallets {
			setup.push(Step::new(Op::Refresh { w: i }));
		}
		setup.reverse();
		HistGen {
			cfg,
			setup,
			setup_done: false,
			labels,
			twins,
			fails: std::collections::BTreeMap::new(),
		}
	}

	pub fn in_setup(&self) -> bool {
		!self.setup.is_empty()
	}

	fn pick_enc(&self, run: &mut Run) -> Enc {
		run.rng.pick(&self.cfg.encodings).clone()
	}

	/// spendable value of the active account of wallet w (simulator's reading)
	pub fn spendable(run: &Run, w: usize) -> u64 {
		if !run.ex.world.is_open(w) {
			return 0;
		}
		let s = run.ex.world.snap(w);
		let h = run.ex.world.chain.height();
		let p = match s.acct_path(&s.active) {
			Some(p) => p,
			None => return 0,
		};
		s.outputs
			.iter()
			.filter(|o| {
				o.root_key_id == p && o.status == OutputStatus::Unspent && o.lock_height <= h
			})
			.map(|o| o.value)
			.sum()
	}

	pub fn amount(&self, run: &mut Run, w: usize) -> u64 {
		let sp = Self::spendable(run, w);
		let r = &mut run.rng;
		if self.cfg.boundary_args && r.chance(1, 4) {
			let k = r.below(12);
			return match k {
				0 => 0,
				1 => 1,
				2 => sp,
				3 => sp.saturating_sub(1),
				4 => sp.saturating_add(1),
				5 => sp.saturating_sub(23_500_000),
				6 => sp.saturating_sub(23_500_001),
				7 => 1u64 << 32,
				8 => 1u64 << 40,
				9 => u64::MAX - r.below(3),
				10 => sp / 2,
				_ => 23_500_000,
			};
		}
		if sp == 0 {
			return r.range(1, 10) * GRIN;
		}
		// a fraction of the spendable balance, leaving room for the fee
		let num = r.range(1, 9);
		let a = sp / 10 * num;
		let a = a - (a % 1_000_000) + r.below(1000);
		std::cmp::max(a, 1)
	}

	pub fn send_args(&self, run: &mut Run, w: usize) -> SendArgs {
		let amount = self.amount(run, w);
		let r = &mut run.rng;
		let mut a = SendArgs::simple(amount);
		a.min_conf = *r.pick(&[0u64, 1, 1, 1, 2, 3, 10]);
		if self.cfg.avoid_spend_unconfirmed && a.min_conf == 0 {
			a.min_conf = 1;
		}
		a.max_outputs = *r.pick(&[1u32, 2, 3, 500, 500, 500]);
		a.num_change = if self.cfg.boundary_args {
			*r.pick(&[0u32, 1, 1, 2, 3, 7, 1])
		} else {
			*r.pick(&[1u32, 1, 1, 2, 3])
		};
		a.use_all = r.chance(1, 2);
		a.incl_fee = r.chance(1, 6);
		if self.cfg.allow_late_lock && r.chance(self.cfg.p_late_lock, 100) {
			a.late_lock = true;
		}
		if self.cfg.allow_ttl && r.chance(1, 3) {
			a.ttl = Some(*r.pick(&[1u64, 2, 3, 5, 100]));
		}
		if self.cfg.allow_multi_acct_args && self.labels[w].len() > 1 && r.chance(1, 4) {
			a.src_acct = Some(r.pick(&self.labels[w]).clone());
		}
		a
	}

	fn other_wallet(&self, run: &mut Run, w: usize) -> usize {
		let n = run.ex.world.wallets.len();
		if n <= 1 {
			return w;
		}
		if self.cfg.allow_self_send && run.rng.chance(1, 8) {
			return w;
		}
		let mut o = run.rng.idx(n - 1);
		if o >= w {
			o += 1;
		}
		o
	}

	/// next natural step of deal d, if any
	pub fn advance(&self, run: &mut Run, d: usize) -> Option<Step> {
		let deal = run.model.deals[d].clone();
		let enc = self.pick_enc(run);
		match deal.kind {
			DealKind::Send => {
				if !deal.replied {
					// sometimes reserve before sending
					if !deal.locked && !deal.late_lock && run.rng.chance(1, 3) {
						return Some(Step::new(Op::Lock {
							w: deal.initiator,
							m: deal.m1,
						}));
					}
					let mut to = self.other_wallet(run, deal.initiator);
					if let Op::InitSend { args, .. } = &run.trace[deal.created_at_step].op {
						if let Some(p) = args.proof_to {
							if run.rng.chance(9, 10) {
								to = p;
							}
						}
					}
					let dest = if self.cfg.allow_multi_acct_args
						&& to < self.labels.len()
						&& self.labels[to].len() > 1
						&& run.rng.chance(1, 4)
					{
						Some(run.rng.pick(&self.labels[to]).clone())
					} else {
						None
					};
					return Some(Step::new(Op::Receive {
						w: to,
						m: deal.m1,
						dest,
						enc,
					}));
				}
				if !deal.locked && !deal.late_lock {
					let m = if run.rng.chance(1, 2) {
						deal.m1
					} else {
						deal.m2.unwrap_or(deal.m1)
					};
					return Some(Step::new(Op::Lock {
						w: deal.initiator,
						m,
					}));
				}
				if !deal.finalized {
					return Some(Step::new(Op::Finalize {
						w: deal.initiator,
						m: deal.m2?,
						foreign: run.rng.chance(1, 4),
					}));
				}
				if !deal.posted {
					return Some(Step::new(Op::Post {
						w: deal.initiator,
						m: deal.m3?,
					}));
				}
				if deal.mined.is_none() {
					let w = if run.rng.chance(1, 2) {
						Some(run.rng.idx(run.ex.world.wallets.len()))
					} else {
						None
					};
					return Some(Step::new(Op::Mine { w, n: 1, txs: true }));
				}
				None
			}
			DealKind::Invoice => {
				if !deal.replied {
					let mut payer = self.other_wallet(run, deal.initiator);
					if payer == deal.initiator && self.cfg.avoid_self_invoice {
						payer = (payer + 1) % run.ex.world.wallets.len();
					}
					let mut args = self.send_args(run, payer);
					args.amount = deal.amount;
					args.late_lock = false;
					args.incl_fee = false;
					args.proof_to = None;
					return Some(Step::new(Op::PayInvoice {
						w: payer,
						m: deal.m1,
						args,
					}));
				}
				if !deal.locked {
					return Some(Step::new(Op::Lock {
						w: deal.payer?,
						m: deal.m2?,
					}));
				}
				if !deal.finalized {
					return Some(Step::new(Op::Finalize {
						w: deal.initiator,
						m: deal.m2?,
						foreign: run.rng.chance(1, 2),
					}));
				}
				if !deal.posted {
					return Some(Step::new(Op::Post {
						w: deal.initiator,
						m: deal.m3?,
					}));
				}
				if deal.mined.is_none() {
					return Some(Step::new(Op::Mine {
						w: None,
						n: 1,
						txs: true,
					}));
				}
				None
			}
		}
	}

	pub fn open_deals(&self, run: &Run) -> Vec<usize> {
		run.model
			.deals
			.iter()
			.enumerate()
			.filter(|(i, d)| {
				d.mined.is_none()
					&& d.cancelled_by.is_empty()
					&& *self.fails.get(i).unwrap_or(&0) < 2
			})
			.map(|(i, _)| i)
			.collect()
	}

	/// generator feedback: remember which deals refuse to advance
	pub fn feedback(&mut self, run: &Run, step: &Step, out: &crate::ops::StepOut) {
		let m = match &step.op {
			Op::Lock { m, .. }
			| Op::Receive { m, .. }
			| Op::Finalize { m, .. }
			| Op::PayInvoice { m, .. }
			| Op::Post { m, .. } => *m,
			_ => return,
		};
		if let Some(d) = run.model.deal_of_msg(run, m) {
			if !out.ok {
				*self.fails.entry(d).or_insert(0) += 1;
			}
		}
	}

	/// attach faults to a step according to the configuration
	pub fn decorate(&self, run: &mut Run, mut st: Step) -> Step {
		if st.wallet().is_none() {
			return st;
		}
		match st.op {
			Op::Mine { .. } | Op::Restart { .. } | Op::SetAccount { .. } => return st,
			_ => {}
		}
		if self.cfg.p_node_fail > 0 && run.rng.chance(self.cfg.p_node_fail, 100) {
			let k = run.rng.range(1, 6) as u32;
			st.node_fail = Some((k, run.rng.chance(2, 3)));
		}
		if self.cfg.p_fault > 0
			&& !self.cfg.fault_kinds.is_empty()
			&& run.rng.chance(self.cfg.p_fault, 100)
		{
			let point = if run.rng.chance(3, 4) {
				if run.rng.chance(1, 2) {
					"lmdb.commit.pre"
				} else {
					"lmdb.commit.post"
				}
			} else if run.rng.chance(1, 2) {
				"store_tx.pre"
			} else {
				"store_tx.post"
			};
			let kind = match *run.rng.pick(&self.cfg.fault_kinds) {
				"crash" => FaultKind::Crash,
				"trunc" => FaultKind::TruncCrash(run.rng.below(400)),
				_ => FaultKind::Fail,
			};
			st.fault = Some(Fault {
				point: point.to_owned(),
				nth: run.rng.range(1, 3) as u32,
				kind,
			});
		}
		st
	}

	pub fn next(&mut self, run: &mut Run) -> Option<Step> {
		if let Some(s) = self.setup.pop() {
			return Some(s);
		}
		self.setup_done = true;
		let c = self.cfg.clone();
		let nw = run.ex.world.wallets.len();
		if nw == 0 {
			return None;
		}
		let open = self.open_deals(run);
		let w_adv = if open.is_empty() { 0 } else { c.w_advance };
		let w_new = if open.len() >= c.max_inflight {
			1
		} else {
			c.w_new_send
		};
		let w_inv = if open.len() >= c.max_inflight {
			0
		} else {
			c.w_new_invoice
		};
		let has_msgs = !run.ex.msgs.is_empty();
		let weights = [
			w_adv,
			w_new,
			w_inv,
			c.w_mine,
			c.w_refresh,
			if has_msgs { c.w_repeat } else { 0 },
			c.w_cancel,
			c.w_restart,
			c.w_account,
			c.w_clock,
			c.w_fork,
			c.w_scan,
			c.w_node_toggle,
			if has_msgs { c.w_mutate } else { 0 },
		];
		let choice = run.rng.weighted(&weights);
		let st = match choice {
			0 => {
				let d = *run.rng.pick(&open);
				match self.advance(run, d) {
					Some(s) => s,
					None => Step::new(Op::Refresh { w: run.rng.idx(nw) }),
				}
			}
			1 => {
				let w = run.rng.idx(nw);
				let mut args = self.send_args(run, w);
				if c.allow_proof && run.rng.chance(1, 3) && nw > 1 {
					let mut o = run.rng.idx(nw - 1);
					if o >= w {
						o += 1;
					}
					args.proof_to = Some(o);
				}
				Step::new(Op::InitSend { w, args })
			}
			2 => {
				let w = run.rng.idx(nw);
				let payer = self.other_wallet(run, w);
				let amount = self.amount(run, payer);
				let dest = if c.allow_multi_acct_args
					&& self.labels[w.min(self.labels.len() - 1)].len() > 1
					&& run.rng.chance(1, 4)
				{
					Some(run.rng.pick(&self.labels[w]).clone())
				} else {
					None
				};
				Step::new(Op::IssueInvoice { w, amount, dest })
			}
			3 => {
				let w = if run.rng.chance(1, 2) {
					Some(run.rng.idx(nw))
				} else {
					None
				};
				Step::new(Op::Mine {
					w,
					n: run.rng.range(1, 3) as u32,
					txs: run.rng.chance(3, 4),
				})
			}
			4 => Step::new(Op::Refresh { w: run.rng.idx(nw) }),
			5 => {
				// repeat an earlier protocol step: same slate delivered again
				let prev: Vec<Step> = run
					.trace
					.iter()
					.filter(|s| {
						matches!(
							s.op,
							Op::Lock { .. }
								| Op::Receive { .. } | Op::Finalize { .. }
								| Op::PayInvoice { .. } | Op::Post { .. }
						)
					})
					.cloned()
					.collect();
				if prev.is_empty() {
					Step::new(Op::Refresh { w: run.rng.idx(nw) })
				} else {
					let mut s = run.rng.pick(&prev).clone();
					s.fault = None;
					s.node_fail = None;
					s
				}
			}
			6 => {
				let w = run.rng.idx(nw);
				if !open.is_empty() && run.rng.chance(3, 4) {
					let d = *run.rng.pick(&open);
					let deal = &run.model.deals[d];
					if deal.posted && !c.allow_cancel_after_post {
						Step::new(Op::Refresh { w })
					} else {
						let who = if run.rng.chance(1, 2) {
							deal.initiator
						} else {
							deal.payee.or(deal.payer).unwrap_or(deal.initiator)
						};
						Step::new(Op::Cancel {
							w: who,
							m: Some(deal.m1),
							id: None,
						})
					}
				} else {
					// by numeric id: only ids whose entry is not a posted deal
					let snap = run.ex.world.snap(w);
					let posted_ids: Vec<uuid::Uuid> = run
						.model
						.deals
						.iter()
						.filter(|d| d.posted)
						.map(|d| d.id)
						.collect();
					let cands: Vec<u32> = snap
						.txs
						.iter()
						.filter(|t| {
							c.allow_cancel_after_post
								|| t.tx_slate_id.map(|i| !posted_ids.contains(&i)).unwrap_or(true)
						})
						.map(|t| t.id)
						.collect();
					let id = if cands.is_empty() || run.rng.chance(1, 5) {
						run.rng.below(40) as u32 + 100
					} else {
						*run.rng.pick(&cands)
					};
					Step::new(Op::Cancel {
						w,
						m: None,
						id: Some(id),
					})
				}
			}
			7 => Step::new(Op::Restart { w: run.rng.idx(nw) }),
			8 => {
				let w = run.rng.idx(nw);
				if w < self.labels.len() {
					if run.rng.chance(1, 3) && self.labels[w].len() < 4 {
						let label = format!("acct{}", self.labels[w].len());
						self.labels[w].push(label.clone());
						Step::new(Op::NewAccount { w, label })
					} else {
						let label = run.rng.pick(&self.labels[w]).clone();
						Step::new(Op::SetAccount { w, label })
					}
				} else {
					Step::new(Op::Refresh { w })
				}
			}
			9 => {
				let d = *run.rng.pick(&[0i64, 1, 1000, 60_000, 3_600_000, -5_000, -86_400_000]);
				Step::new(Op::Clock { delta_ms: d })
			}
			10 => Step::new(Op::Fork {
				depth: run.rng.range(1, 4),
				extra: run.rng.range(1, 2),
				include: run.rng.chance(1, 2),
				readd: run.rng.chance(2, 3),
			}),
			11 => {
				let del = run.rng.chance(1, 3);
				Step::new(Op::Scan {
					w: run.rng.idx(nw),
					// avoid list (known finding, C16): a partial-range scan that drops
					// pending transactions cancels entries whose inputs lie below the range
					start: if del || run.rng.chance(1, 2) {
						None
					} else {
						Some(run.rng.range(0, run.ex.world.chain.height()))
					},
					del,
				})
			}
			12 => Step::new(Op::Node {
				down: !run.ex.world.chain.is_down(),
			}),
			_ => {
				let m = run.rng.idx(run.ex.msgs.len());
				let kind = (*run.rng.pick(crate::mutate::SLATE_MUTATIONS)).to_owned();
				Step::new(Op::Mutate {
					m,
					kind,
					arg: run.rng.next_u64() >> 8,
				})
			}
		};
		Some(self.decorate(run, st))
	}
}

/// A scripted complete send (initiate, receive, reserve, finalize, post, mine) between
/// two wallets, spliced into a generated history by a property module; the message
/// indices become known as the steps execute.
pub struct SendScript {
	pub a: usize,
	pub b: usize,
	pub args: SendArgs,
	pub dest: Option<String>,
	pub stage: u32,
	/// last stage to perform: 1 init, 2 receive, 3 lock, 4 finalize, 5 post, 6 mine
	pub upto: u32,
	pub m1: Option<usize>,
	pub m2: Option<usize>,
	pub m3: Option<usize>,
	pub failed: bool,
}

impl SendScript {
	pub fn new(a: usize, b: usize, args: SendArgs, upto: u32) -> SendScript {
		SendScript { a, b, args, dest: None, stage: 0, upto, m1: None, m2: None, m3: None, failed: false }
	}

	pub fn done(&self) -> bool {
		self.failed || self.stage >= self.upto
	}

	pub fn next(&mut self) -> Option<Step> {
		if self.done() {
			return None;
		}
		let late = self.args.late_lock;
		let op = match self.stage {
			0 => Op::InitSend { w: self.a, args: self.args.clone() },
			1 => Op::Receive { w: self.b, m: self.m1?, dest: self.dest.clone(), enc: Enc::Mem },
			2 if late => {
				self.stage += 1;
				Op::Finalize { w: self.a, m: self.m2?, foreign: false }
			}
			2 => Op::Lock { w: self.a, m: self.m1? },
			3 => Op::Finalize { w: self.a, m: self.m2?, foreign: false },
			4 => Op::Post { w: self.a, m: self.m3? },
			5 => Op::Mine { w: None, n: 1, txs: true },
			_ => return None,
		};
		self.stage += 1;
		Some(Step::new(op))
	}

	/// to be called from the property's `after` for every step while the script runs
	pub fn feedback(&mut self, step: &Step, out: &crate::ops::StepOut) {
		match (&step.op, out.new_msg) {
			(Op::InitSend { .. }, Some(m)) if self.stage == 1 => self.m1 = Some(m),
			(Op::Receive { .. }, Some(m)) if self.stage == 2 => self.m2 = Some(m),
			(Op::Finalize { .. }, Some(m)) if self.stage == 4 => self.m3 = Some(m),
			_ => {}
		}
		if !out.ok && !matches!(step.op, Op::Refresh { .. }) {
			self.failed = true;
		}
	}
}
