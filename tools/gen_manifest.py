#!/usr/bin/env python3
"""Regenerates /verif/MANIFEST.json from the table below (kept in one place so the
manifest stays valid while properties are added)."""
import json, os, subprocess

ROOT = os.path.dirname(os.path.dirname(os.path.abspath(__file__)))

TRUST = ("A committed LMDB transaction is taken as the atomic durable unit; storage faults below an LMDB commit are not simulated. "
         "HTTP/Tor adapters, the hyper accept loop and the CLI are not run. Sampling, not proof: a clean batch is evidence for the sampled histories only.")

CLAIMED = {
    "C03": dict(cat="exploration", ref="DESIGN.md §3 C03",
        text="Seeded search over interleaved multi-slate histories (2-3 real wallets on a real chain, duplicated and re-ordered deliveries, cancels, restarts). After every step the DealBook's reserved-input sets of live transactions must be pairwise disjoint, no slate may own two live log entries of one direction, and a repeated protocol step must fail or leave outputs/log entries unchanged, and while a wallet's sent entry of a reserved deal is live every output reserved for it must still be reserved (or spent). A twin-accounts swarm funds every account of a wallet alike, so pending transactions of different accounts carry equal log ids and key indices. Exploration is the right level: the property quantifies over histories, which are sampled and minimised, not enumerated.",
        tech="deterministic simulation: seeded multi-slate histories with duplicate/reordered delivery, DealBook exclusivity + idempotence oracles"),
    "C04": dict(cat="exploration", ref="DESIGN.md §3 C04",
        text="Seeded search over long mixed histories with node-call failures injected inside refresh, restarts and multi-account use; after every successful refresh the account's recorded unspent/reserved outputs are compared with the simulator's own range-proof rewind of the real chain's UTXO set, the five balance figures with an independent partition of those values at minimum confirmations 1/2/3/10, and the confirmed log sums with their total. Histories the statement excludes are recognised by the DealBook and not judged.",
        tech="deterministic simulation: seeded histories + node-outage injection, chain-truth (independent UTXO rewind) reference oracle after each refresh"),
}

CLAIMED.update({
    "C01": dict(cat="exploration", ref="DESIGN.md §3 C01",
        text="Seeded histories build varied output sets on real wallets and a real chain, then bursts of init_send_tx / process_invoice_tx with boundary-rich arguments run under node-call failures and failing writes. On success the saved private context (observer read) is checked against the simulator's own chain truth: every input is an unreserved, mature, sufficiently confirmed output of the source account, inputs = amount + fee + change (or the amount-includes-fee variant), fee >= the network minimum for the resulting shape; on failure nothing reserving funds may have been persisted and a panic is a violation. A quarter of the runs contain re-organisations and scans, so the output sets also hold Reverted records (a scripted fork aimed at a confirmed incoming payment followed by a zero-confirmation send); a wallet that has not scanned since a fork or since a broadcast transaction was cancelled is judged against its own records as the embedded refresh left them, not against the node's unspent set (C04/C16/C18 own that repair). The argument dimension is seeded sampling (labelled partial scope); the history/failure dimensions are what simulation adds.",
        tech="deterministic simulation: seeded histories + boundary-argument bursts under node/storage fault injection, context-vs-chain-truth conservation oracle"),
    "C02": dict(cat="exploration", ref="DESIGN.md §3 C02",
        text="Seeded exchanges of every flow kind between real wallets; the simulator is the wire and alters a fraction of replies by one field-level mutation before finalization. Every transaction returned by finalize is validated with grin_core, compared with the payer's recorded reservation and change, the DealBook's agreed amount and fee, the recipient's recorded output and the stored copy byte for byte; after a refused finalize the pending transaction must still cancel and release its inputs.",
        tech="deterministic simulation: corrupting transport (one field mutation per reply), DealBook exactness oracle + consensus validation of every finalized transaction"),
    "C05": dict(cat="exploration", ref="DESIGN.md §3 C05",
        text="Seeded histories with a focus script (refresh, create a transaction in a chosen role, drive it to a chosen stage, cancel by log id or slate id). The oracle is derived from the trace alone: the snapshot after the wallet's last successful refresh is the base as long as the chain has not moved and only the target transaction touched the wallet; after the cancel every output's status and value and every balance figure must equal the base, the target entry must be cancelled and all others untouched; cancels of confirmed, cancelled, coinbase and unknown entries must be refused without effect.",
        tech="deterministic simulation: seeded histories + trace-derived base snapshot, exact-rollback comparison"),
    "C11": dict(cat="exploration", ref="DESIGN.md §3 C11",
        text="Seeded proof-carrying sends between three real wallets with replies altered on the proof fields; on every successful finalize the simulator re-verifies the recipient signature itself (ed25519 over amount, final kernel excess, sender address); a Byzantine recipient may also state another amount and sign over it with its genuine key; proofs are exported from the account the payment was sent from (a scripted send names a source account other than the active one) and, with single-field mutations of them, are verified by sender, recipient and a third wallet while the kernel is unmined, mined and re-organised away on the real chain.",
        tech="deterministic simulation: corrupting transport on proof fields + real-chain reorgs, independent signature re-verification oracle"),
})

CLAIMED.update({
    "C06": dict(cat="fault_enumeration", ref="DESIGN.md §3 C06",
        text="Fault enumeration on top of seeded histories: for the target operation reached by a seeded history every persistence point it visits (each LMDB batch commit incl. key-index bumps, stored-transaction file pre/post) is enumerated with a crash (simulated process death by unwinding, handles dropped, wallet re-opened from its directory), a failing write, and for the stored-transaction file a set of truncation lengths. After each variant the wallet must open, every query must answer without panicking, reservations must be all-or-nothing, every pending entry must cancel, and the funds after cancelling everything must equal those of the fault-free twin run from the same directory snapshot. The set of points per operation is enumerated completely; the pre-states and operations are sampled.",
        tech="deterministic simulation with crash-point enumeration: seeded pre-state, every persistence point x {crash, failing write, truncation}, fault-free twin as reference"),
    "C07": dict(cat="exploration", ref="DESIGN.md §3 C07",
        text="A Byzantine peer drives the real api::Foreign of victims in seeded mid-history states with harvested, mutated and forged slates, ids of the victim's pending (incl. late-locked) transactions, and build_coinbase requests naming existing outputs; before/after snapshots of outputs, log entries and private contexts must be unchanged except for exactly one unconfirmed output plus one receive entry per accepted slate; second deliveries must be refused. Replies that are validly counter-signed (finalize succeeds, or an unaltered honest reply) are outside the statement and not judged.",
        tech="deterministic simulation: Byzantine peer on the foreign API (harvest / mutate / forge), before-after state-diff oracle"),
    "C12": dict(cat="exploration", ref="DESIGN.md §3 C12",
        text="Wire-tap and disk-tap oracle over seeded histories (every file incl. raw LMDB pages and every emitted slate searched for seeds, mnemonics and every private context's four secret values in six encodings), seed-file password checks against an independent PBKDF2+ChaCha20-Poly1305 implementation, crash/failing-write/truncation enumeration over change_password and recover_from_mnemonic with the requirement that some seed file still decrypts to the original seed, per-wallet uniqueness of public nonces and excesses across slates, and one partial signature per public nonce over everything a wallet emits (a scripted recipient answers one slate twice and the sender finalizes both replies).",
        tech="deterministic simulation: disk/wire tap with observer-known secrets, independent seed-file decryption, crash-point enumeration over the password change, nonce-uniqueness history check",
        ),
    "C15": dict(cat="exploration", ref="DESIGN.md §3 C15",
        text="Every output record a wallet ever commits is observed through a hook in Batch::save (counted when its LMDB batch commits, so records deleted later are seen too) across seeded multi-account histories with restarts, crashes and failing writes at persistence points; per wallet a key path may carry one output only (except the re-requested unconfirmed coinbase candidate); after a restore from seed and scan the next child index must exceed every index the simulator's own rewind finds on chain.",
        tech="deterministic simulation: committed-save observer + crash injection, path-uniqueness history oracle, restore next-path check against chain truth"),
    "C17": dict(cat="exploration", ref="DESIGN.md §3 C17",
        text="Seeded histories with TTLs and cutoffs rewritten on the wire around the height the receiving wallet last observed; the oracle predicts from the pre-state (per-account observed heights) whether each receive/pay/finalize must be refused, must not be refused for expiry, or is left open, and checks after every successful refresh that exactly the wallet's own outstanding entries whose cutoff the tip has reached are cancelled with their inputs released.",
        tech="deterministic simulation: on-the-wire cutoff rewriting relative to observed height, refusal/release oracle"),
    "C19": dict(cat="exploration", ref="DESIGN.md §3 C19",
        text="Model-based checking inside a stateful simulation: logs are produced by real histories under a virtual clock that jumps both ways (equal timestamps, creation order != id order, confirmation before creation), queries are aimed exactly at stored values, and every answer is compared with a three-valued reference filter written from the field documentation (required / forbidden / left open); direction-only criteria keep cancelled entries of that direction (cancellation has its own criterion), and direction-only queries are aimed at the cancelled entries a history left in the log. The query-argument dimension is seeded sampling (labelled partial scope).",
        tech="deterministic simulation with virtual clock: reference-model (three-valued filter) comparison of every query answer"),
})

CLAIMED.update({
    "C13": dict(cat="exploration", ref="DESIGN.md §3 C13",
        text="The real OwnerAPIHandlerV3 is driven in-process (api::Handler::post with in-memory bodies, and for the slow-request fault a streamed body: the handler future is polled once with the request head, other requests are served completely, then the body arrives) by seeded sessions mixing a legitimate client and an attacker on the wire. A small session model tracks the current key (result of the last successful key exchange); every request the model classifies as not authenticated under it must be answered with an error, must leave the wallet directory digest, open/closed state and active account unchanged and must not echo wallet data; every authenticated call must be answered under the same key. A request whose body arrives after a re-key was made under a superseded key and must be refused.",
        tech="deterministic simulation: in-process JSON-RPC session fuzzing against a session-key reference model, state-digest and reply oracles"),
    "C14": dict(cat="exploration", ref="DESIGN.md §3 C14",
        text="Seeded histories on masked wallets with token-taking owner methods called under six token classes at arbitrary states and after close_wallet; wrong tokens must fail for every key-deriving / state-changing method and never change the directory digest; the whole explicit trace is then replayed in an unmasked twin world in the same process and step outcomes plus a canonical end-state projection must agree.",
        tech="deterministic simulation: token-class injection + counterfactual unmasked twin replay of the same trace"),
    "C16": dict(cat="exploration", ref="DESIGN.md §3 C16",
        text="Seeded multi-account histories (incl. cancel-after-broadcast and reorgs on the real chain) followed by restore-from-mnemonic + scan, and by stored-state divergences injected through the backend (deleted / wrongly spent / wrongly locked / stale unconfirmed records) + scan + scan again; the result is compared with the simulator's own range-proof rewind of the UTXO set (value, height, coinbase flag, lock height, account), the restored spendable total with the chain's, and the second scan must change nothing. The scan batch size is a randomised knob so batch boundaries are crossed.",
        tech="deterministic simulation: stored-state fault injection + restore, chain-truth reference oracle, idempotence check, randomised batch-size knob"),
    "C18": dict(cat="exploration", ref="DESIGN.md §3 C18",
        text="Seeded histories in which forks of the real chain are aimed at the block holding a payment the wallet has reported confirmed (depth, inclusion and re-adding drawn), with refreshes, scans (in half of the scripts the node fails one call of the first scan after the fork), sends and re-mining at arbitrary points; after a scan on a chain without the kernel the entry must be reverted and its outputs unspendable and uncounted, totals must not exceed the chain's truth (orphaned coinbases), a reverted output must never be selected while off chain, and a re-mined payment must be re-confirmed by an ordinary refresh.",
        tech="deterministic simulation: real-chain reorg injection aimed at receiving blocks, revert/reconfirm oracle against chain truth"),
})

CLAIMED.update({
    "C09": dict(cat="exploration", ref="DESIGN.md §3 C09",
        text="Valid traffic of a seeded history (every slate state, with proofs and TTLs) is hit by byte-level channel/file faults at 18 real entry points (slate JSON, armored / binary / JSON slatepacks plain and encrypted to the wallet, addresses, payment-proof JSON, both JSON-RPC listeners incl. the optional parameters of the foreign receive_tx, owner requests inside an honest encrypted envelope, the envelope's own nonce / body / id fields and the token field of authenticated requests, slatepack files); fault kinds include quoted and truncated pastes and pairs of independent faults and by a Byzantine peer that age-encrypts malformed plaintexts to the wallet's own address. A genuine panic (caught at the step boundary, signature = wallet call site even when the panic fires inside a dependency), more than 512 MB of heap growth in one decode, a hang (real-time watchdog + journal) or a changed wallet directory after a rejected input (LMDB records compared one by one, the kinds of record that changed go into the signature) is a violation. Labelled partial scope: the inputs are faults of valid encodings and Byzantine ciphertexts, not all byte strings.",
        tech="deterministic simulation: corrupting channel / torn file / Byzantine-ciphertext fault kinds on real traffic at every decoding entry point, panic+allocation+hang+state-digest oracles"),
    "C10": dict(cat="exploration", ref="DESIGN.md §3 C10",
        text="Network-fault reading of the property: every slatepack a sender packs for a drawn recipient set is delivered to each recipient (must yield the slate and sender), misdelivered to every other identity in the world - an identity is a (wallet, derivation index) pair, two identities that hold one key are a violation by themselves - and to a keyless reader (must not decode), inspected raw by an eavesdropper for the slate and sender address, corrupted in transit by character edits of the armor, and tampered with by an active attacker who flips bits of the age payload and recomputes the armor checksum (must be rejected or yield the same slate). Labelled partial scope: wrong keys are the other identities of the simulated world, not all keys.",
        tech="deterministic simulation: misdelivery / eavesdropping / in-transit corruption and active tampering faults on slatepack traffic"),
})

CLAIMED.update({
    "C20": dict(cat="exploration", ref="DESIGN.md §3 C20",
        text="Real threads under a cooperative baton scheduler installed behind the lock-scope hooks (every wallet-lock acquisition in libwallet and api, plus node calls made outside lock scopes, is a yield point; a thread is never descheduled while it holds the wallet mutex, so the seeded choice list alone decides the interleaving and replays exactly). For each seeded scenario (T0 = full refresh pass or scan, plus 1-3 owner/foreign operations on the same wallet, node frozen during the window) all serial orders are executed from one directory snapshot to obtain the set of serial outcomes under a canonical projection, then uniform-random and PCT-style interleavings must each end in that set; a hang is reported as deadlock. In tier-2 scenarios the node event (a block confirming, spending or re-organising records) is applied inside the concurrent window at a scheduler-chosen point; there the oracle is completed effects (what an operation that returned Ok recorded is never replaced by data the background pass read before it ran). In a share of the scenarios T0 is the wallet's own updater thread: start_updater is called for real, the thread it spawns is adopted by the scheduler at its first lock section (the sleep between passes goes through the sleep seam and advances the virtual clock), it runs until the operations have finished, stop_updater ends it; the reference set is then every order of the operations with an updater pass or none before each of them and a final pass.",
        tech="deterministic simulation: cooperative baton scheduler over real threads at wallet-lock granularity, seeded random + PCT schedules, serial-outcome-set (serializability) oracle"),
})

NOT_YET = {
    "C08": "not applicable to this technique: encode/decode round-trips are pure functions of their input (no schedule, clock, fault, crash point or second party); deciding them needs structural input generation or proof, see DESIGN.md §4",
}

def main():
    props = [json.loads(l) for l in open(os.path.join(ROOT, "properties.jsonl"))]
    commits = subprocess.run(["git", "-C", "/repo", "log", "--format=%h %s"], capture_output=True, text=True).stdout.splitlines()
    hook_commits = [c.split()[0] for c in commits if "verif_hooks" in c]
    checks = []
    na = []
    for p in props:
        i = p["id"]
        if i in CLAIMED:
            c = CLAIMED[i]
            checks.append({
                "property_id": i,
                "quick_cmd": f"./check {i} quick",
                "thorough_cmd": f"./check {i} thorough",
                "evidence_file": f"/verif/evidence/{i}.json",
                "replay_cmd_template": "./check replay {path}",
                "engine": "gwsim",
                "level_claimed": {"category": c["cat"], "text": c["text"], "design_ref": c["ref"]},
                "level_note": TRUST + (" " + c["note"] if "note" in c else ""),
                "technique": c["tech"],
            })
        else:
            na.append({"property_id": i, "reason": NOT_YET.get(i, "check not built yet in this round (planned, see DESIGN.md §8); not claimed until its oracle has passed determinism, sensitivity and zero-alarm validation")})
    m = {
        "version": 1,
        "setup_cmd": "cd /verif/sim && CARGO_NET_OFFLINE=true cargo build --release --offline",
        "hooks": {
            "guard": "cargo feature verif_hooks (libwallet, impls, api, controller; default off)",
            "enable": "gwsim depends on /repo/{libwallet,impls,api,controller} by path with features=[\"verif_hooks\"]; every ./check invocation rebuilds gwsim (cargo build --release --offline) against /repo's working tree",
            "baseline_off_cmd": "cd /repo && cargo nextest run --workspace --no-fail-fast --test-threads 8 --offline || cargo test --workspace --no-fail-fast --offline",
            "source_commits": list(reversed(hook_commits)),
            "add_only": True,
        },
        "engines": [{
            "name": "gwsim",
            "path": "/verif/sim",
            "serves_properties": sorted(CLAIMED.keys()),
            "kind_free_text": "deterministic simulator: real wallets (libwallet+impls/LMDB+api) on a real grin_chain in one process; simulated transport, node availability, clock, entropy, crash/failing-write points, thread schedule; one seed = one run = one fresh process; explicit-trace replay files, delta-debugging minimiser",
        }],
        "checks": checks,
        "not_applicable": na,
        "notes": "Known findings: /verif/known_findings.json (status known|fixed). Replay files: /verif/replays/. Default seed 20261004; VERIF_SEED / VERIF_BUDGET_S override.",
    }
    json.dump(m, open(os.path.join(ROOT, "MANIFEST.json"), "w"), indent=1)
    print("claimed:", sorted(CLAIMED.keys()), "unclaimed:", len(na))

if __name__ == "__main__":
    main()
