//! C06 — a crash at any point leaves a loadable, consistent, recoverable wallet.
//!
//! Fault enumeration on top of seeded histories. A seeded history brings the world
//! to a state; the generator's next natural wallet operation is the *target*. It is
//! first run fault-free from a directory snapshot to list the persistence points it
//! visits and to obtain the reference outcome of the recovery procedure; then it is
//! re-run from the same snapshot once per point with a crash there (for the stored
//! transaction file: once per truncation length), and once per point with a failing
//! write. A violating variant is handed to the engine as the next step, so the
//! replay file is the linear history plus that one faulted step.

use crate::gen::{GenCfg, HistGen};
use crate::hooks::{Fault, FaultKind};
use crate::ops::{Exec, Op, OpRes, Step, StepOut, LAST_PANIC};
use crate::run::{sample_trace, Prop, Run, Violation};
use grin_util::ToHex;
use grin_wallet_libwallet::{OutputStatus, TxLogEntryType};
use serde_json::json;
use std::collections::BTreeMap;
use std::panic::{catch_unwind, AssertUnwindSafe};

#[derive(Clone, Debug, PartialEq)]
pub struct Recovered {
	/// per account label: (sum of Unspent values, number of Locked outputs,
	/// number of Unconfirmed non-coinbase outputs, spendable figure, total figure)
	pub per_acct: BTreeMap<String, (u64, usize, usize, u64, u64)>,
}

struct Saved {
	w: usize,
	backup: String,
	mempool: Vec<grin_core::core::Transaction>,
	n_msgs: usize,
	now_ms: i64,
	/// the active account is in-memory state of the open wallet
	active: String,
}

pub struct C06 {
	gen: HistGen,
	targets_done: u32,
	max_targets: u32,
	history_len: usize,
	reference: Option<Result<Recovered, String>>,
	cached_for: Option<String>,
	trunc_all: bool,
	enumerated: u64,
}

fn no_custom(_: &mut Exec, _: &str, _: &serde_json::Value) -> OpRes {
	OpRes::Skipped("none".into())
}

fn copy_dir(src: &str, dst: &str) {
	let _ = std::fs::remove_dir_all(dst);
	let _ = std::fs::create_dir_all(dst);
	if let Ok(rd) = std::fs::read_dir(src) {
		for e in rd.flatten() {
			let p = e.path();
			let name = e.file_name();
			let d = format!("{}/{}", dst, name.to_string_lossy());
			if p.is_dir() {
				copy_dir(&p.to_string_lossy(), &d);
			} else {
				let _ = std::fs::copy(&p, &d);
			}
		}
	}
}

fn eligible(step: &Step) -> bool {
	matches!(
		step.op,
		Op::InitSend { .. }
			| Op::Lock { .. }
			| Op::Receive { .. }
			| Op::Finalize { .. }
			| Op::IssueInvoice { .. }
			| Op::PayInvoice { .. }
			| Op::Cancel { .. }
			| Op::Refresh { .. }
			| Op::Scan { .. }
			| Op::NewAccount { .. }
	)
}

impl C06 {
	pub fn new(run: &mut Run) -> C06 {
		let mut cfg = GenCfg::swarm(run);
		cfg.boundary_args = false;
		cfg.avoid_self_invoice = true;
		cfg.avoid_spend_unconfirmed = true;
		cfg.allow_self_send = false;
		cfg.w_scan = 1 + run.rng.below(3) as u32;
		cfg.w_cancel = 2 + run.rng.below(4) as u32;
		cfg.w_account = run.rng.below(3) as u32;
		cfg.w_restart = 0;
		cfg.w_clock = 0;
		cfg.max_inflight = 2 + run.rng.below(3) as usize;
		let history_len = 8 + run.rng.below(18) as usize;
		let gen = HistGen::new(cfg, run);
		C06 {
			gen,
			targets_done: 0,
			max_targets: if run.thorough { 4 } else { 2 },
			history_len,
			reference: None,
			cached_for: None,
			trunc_all: run.thorough,
			enumerated: 0,
		}
	}

	fn save(run: &Run, w: usize) -> Saved {
		let backup = format!("{}/backup-w{}", run.ex.world.dir, w);
		copy_dir(&run.ex.world.wallets[w].top_dir, &backup);
		Saved {
			w,
			backup,
			mempool: run.ex.world.chain.node.sh.mempool.lock().unwrap().clone(),
			n_msgs: run.ex.msgs.len(),
			now_ms: crate::hooks::now_ms(),
			active: run.ex.world.snap(w).active,
		}
	}

	fn restore(run: &mut Run, s: &Saved) -> Result<(), String> {
		run.ex.world.drop_handles(s.w);
		let dir = run.ex.world.wallets[s.w].top_dir.clone();
		copy_dir(&s.backup, &dir);
		*run.ex.world.chain.node.sh.mempool.lock().unwrap() = s.mempool.clone();
		run.ex.msgs.truncate(s.n_msgs);
		crate::hooks::set_now_ms(s.now_ms);
		run.ex.world.open(s.w).map_err(|e| format!("{}", e))?;
		let o = run.ex.world.owner(s.w);
		let m = run.ex.world.mask(s.w);
		o.set_active_account(m.as_ref(), &s.active).map_err(|e| format!("{}", e))
	}

	/// The recovery procedure: refresh every account, cancel every pending entry,
	/// report what the wallet then holds.
	fn recover(run: &mut Run, w: usize) -> Result<Recovered, String> {
		let owner = run.ex.world.owner(w);
		let mask = run.ex.world.mask(w);
		let snap0 = run.ex.world.snap(w);
		let active0 = snap0.active.clone();
		let mut per = BTreeMap::new();
		for a in &snap0.accts {
			owner
				.set_active_account(mask.as_ref(), &a.label)
				.map_err(|e| format!("set_active_account: {}", e))?;
			let (validated, _) = owner
				.retrieve_summary_info(mask.as_ref(), true, 1)
				.map_err(|e| format!("refresh: {}", e))?;
			if !validated {
				return Err("refresh could not reach the node".into());
			}
			let snap = run.ex.world.snap(w);
			let pending: Vec<u32> = snap
				.txs
				.iter()
				.filter(|t| t.parent_key_id == a.path && crate::world::is_live(t))
				.map(|t| t.id)
				.collect();
			for id in pending {
				owner
					.cancel_tx(mask.as_ref(), Some(id), None)
					.map_err(|e| format!("cancel_tx({}): {}", id, e))?;
			}
			let snap = run.ex.world.snap(w);
			let outs = snap.outs_of(&a.path);
			let unspent: u64 = outs
				.iter()
				.filter(|o| o.status == OutputStatus::Unspent)
				.map(|o| o.value)
				.sum();
			let locked = outs.iter().filter(|o| o.status == OutputStatus::Locked).count();
			let unconf = outs
				.iter()
				.filter(|o| o.status == OutputStatus::Unconfirmed && !o.is_coinbase)
				.count();
			let (_, info) = owner
				.retrieve_summary_info(mask.as_ref(), false, 1)
				.map_err(|e| format!("info: {}", e))?;
			per.insert(
				a.label.clone(),
				(unspent, locked, unconf, info.amount_currently_spendable, info.total),
			);
		}
		let _ = owner.set_active_account(mask.as_ref(), &active0);
		Ok(Recovered { per_acct: per })
	}

	/// every query call answers without crashing
	fn queries(run: &mut Run, w: usize) -> Option<(String, String)> {
		let owner = run.ex.world.owner(w);
		let mask = run.ex.world.mask(w);
		let snap = run.ex.world.snap(w);
		let mut bad: Option<(String, String)> = None;
		let mut guard = |name: &str, f: &mut dyn FnMut()| {
			if bad.is_some() {
				return;
			}
			*LAST_PANIC.lock().unwrap() = None;
			if catch_unwind(AssertUnwindSafe(|| f())).is_err() {
				let p = LAST_PANIC.lock().unwrap().take().unwrap_or_default();
				bad = Some((name.to_owned(), p));
			}
		};
		guard("retrieve_outputs", &mut || {
			let _ = owner.retrieve_outputs(mask.as_ref(), true, false, None);
		});
		guard("retrieve_txs", &mut || {
			let _ = owner.retrieve_txs(mask.as_ref(), false, None, None, None);
		});
		guard("retrieve_summary_info", &mut || {
			let _ = owner.retrieve_summary_info(mask.as_ref(), false, 1);
		});
		for t in &snap.txs {
			if let Some(id) = t.tx_slate_id {
				guard("get_stored_tx", &mut || {
					let _ = owner.get_stored_tx(mask.as_ref(), None, Some(&id));
				});
				if t.payment_proof.is_some() {
					guard("retrieve_payment_proof", &mut || {
						let _ = owner.retrieve_payment_proof(mask.as_ref(), false, None, Some(id));
					});
				}
			}
		}
		guard("retrieve_summary_info(refresh)", &mut || {
			let _ = owner.retrieve_summary_info(mask.as_ref(), true, 1);
		});
		bad
	}

	/// the property's oracle for one faulted step
	fn judge(
		run: &mut Run,
		w: usize,
		step: &Step,
		out: &StepOut,
		reference: &Option<Result<Recovered, String>>,
	) -> Vec<Violation> {
		let mut v = vec![];
		let kind = step.kind();
		let fk = step
			.fault
			.as_ref()
			.map(|f| crate::run::kind_name(&f.kind))
			.unwrap_or("none");
		if let Some(p) = &out.panic {
			let site = p.split(" :: ").next().unwrap_or("?").to_owned();
			v.push(run.viol(
				"no_panic",
				&format!("panic@{}", site),
				format!("{} with fault {:?}: genuine panic {}", kind, step.fault, p),
			));
			return v;
		}
		if let Some(e) = &out.reopen_err {
			let sig = if e.starts_with("PANIC") {
				format!("reopen_panicked:{}", e.split(" :: ").next().unwrap_or("?"))
			} else {
				"reopen_failed".to_owned()
			};
			v.push(run.viol(
				"loadable",
				&sig,
				format!("after a crash in {} at {:?} the wallet does not open: {}", kind, step.fault, e),
			));
			return v;
		}
		if !run.ex.world.is_open(w) {
			return v;
		}
		if let Some((q, p)) = Self::queries(run, w) {
			let site = p.split(" :: ").next().unwrap_or("?").to_owned();
			v.push(run.viol(
				"queries_answer",
				&format!("query_panicked:{}@{}", q, site),
				format!("after {} in {} at {:?}: {} panicked: {}", fk, kind, step.fault, q, p),
			));
			return v;
		}
		// a stored-transaction file that a log entry refers to is either readable or
		// reported as an error: never "there is none" (silent loss) for a file that was
		// written, however short the crash left it
		{
			let owner = run.ex.world.owner(w);
			let mask = run.ex.world.mask(w);
			let snap = run.ex.world.snap(w);
			let active = snap.acct_path(&snap.active);
			for t in &snap.txs {
				if t.stored_tx.is_none() || Some(&t.parent_key_id) != active.as_ref() {
					continue;
				}
				if let Some(id) = t.tx_slate_id {
					let file = format!("{}/wallet_data/saved_txs/{}", run.ex.world.wallets[w].top_dir, t.stored_tx.clone().unwrap_or_default());
					let len = std::fs::metadata(&file).map(|m| m.len() as i64).unwrap_or(-1);
					if let Ok(None) = owner.get_stored_tx(mask.as_ref(), None, Some(&id)) {
						v.push(run.viol(
							"stored_tx_error_not_loss",
							&format!("stored_tx_silently_lost:{}", kind),
							format!(
								"after {} in {} at {:?}: log entry {} refers to stored transaction {} (file length {}), get_stored_tx answers that there is none",
								fk, kind, step.fault, t.id, t.stored_tx.clone().unwrap_or_default(), len
							),
						));
						return v;
					}
					run.cov.probe("stored_tx_of_a_log_entry_read_back_after_a_fault");
				}
			}
		}
		// structural consistency
		let snap = run.ex.world.snap(w);
		for o in &snap.outputs {
			if o.status == OutputStatus::Locked {
				let ok = snap.txs.iter().any(|t| {
					Some(t.id) == o.tx_log_entry
						&& t.parent_key_id == o.root_key_id
						&& t.tx_type == TxLogEntryType::TxSent
						&& !t.confirmed
				});
				if !ok {
					v.push(run.viol(
						"reservation_consistent",
						&format!("locked_output_without_live_sent_entry:{}", kind),
						format!(
							"after {} in {} at {:?}: output {} is Locked but no live sent entry {:?} exists",
							fk,
							kind,
							step.fault,
							o.key_id.to_hex(),
							o.tx_log_entry
						),
					));
					return v;
				}
			}
		}
		for t in &snap.txs {
			if t.tx_type != TxLogEntryType::TxSent || t.confirmed {
				continue;
			}
			let linked: Vec<_> = snap
				.outputs
				.iter()
				.filter(|o| o.tx_log_entry == Some(t.id) && o.root_key_id == t.parent_key_id)
				.collect();
			let ins: Vec<_> = linked
				.iter()
				.filter(|o| o.status == OutputStatus::Locked || o.status == OutputStatus::Spent)
				.collect();
			let change = linked
				.iter()
				.filter(|o| o.status == OutputStatus::Unconfirmed || o.status == OutputStatus::Unspent)
				.count();
			let in_sum: u64 = ins.iter().map(|o| o.value).sum();
			if ins.len() != t.num_inputs || in_sum != t.amount_debited || change != t.num_outputs {
				v.push(run.viol(
					"reservation_atomic",
					&format!("reservation_partial:{}", kind),
					format!(
						"after {} in {} at {:?}: sent entry {} says {} inputs / {} debited / {} change outputs, records show {} / {} / {}",
						fk, kind, step.fault, t.id, t.num_inputs, t.amount_debited, t.num_outputs, ins.len(), in_sum, change
					),
				));
				return v;
			}
		}
		// every pending transaction can still be cancelled; all funds are back
		let rec = catch_unwind(AssertUnwindSafe(|| Self::recover(run, w)));
		let rec = match rec {
			Ok(r) => r,
			Err(_) => {
				let p = LAST_PANIC.lock().unwrap().take().unwrap_or_default();
				v.push(run.viol(
					"cancellable",
					&format!("recovery_panicked@{}", p.split(" :: ").next().unwrap_or("?")),
					format!("after {} in {} at {:?}: refresh/cancel panicked: {}", fk, kind, step.fault, p),
				));
				return v;
			}
		};
		match (&rec, reference) {
			(Err(e), Some(Ok(_))) => {
				let class = if e.starts_with("cancel_tx") {
					"cancel_failed"
				} else if e.starts_with("refresh") {
					"refresh_failed"
				} else {
					"recovery_failed"
				};
				v.push(run.viol(
					"cancellable",
					class,
					format!("after {} in {} at {:?}: {}", fk, kind, step.fault, e),
				));
			}
			(Ok(r), Some(Ok(want))) => {
				for (label, got) in &r.per_acct {
					if got.1 > 0 {
						v.push(run.viol(
							"cancellable",
							&format!("locked_after_cancelling_everything:{}", kind),
							format!("after {} in {} at {:?}: account {} still has {} locked outputs after cancelling every pending transaction", fk, kind, step.fault, label, got.1),
						));
						return v;
					}
					if got.2 > 0 {
						v.push(run.viol(
							"cancellable",
							&format!("pending_outputs_left_after_cancelling_everything:{}", kind),
							format!("after {} in {} at {:?}: account {} still has {} unconfirmed outputs after cancelling every pending transaction", fk, kind, step.fault, label, got.2),
						));
						return v;
					}
					if let Some(w0) = want.per_acct.get(label) {
						if (got.0, got.3, got.4) != (w0.0, w0.3, w0.4) {
							v.push(run.viol(
								"funds_restored",
								&format!("funds_differ_from_fault_free_recovery:{}", kind),
								format!(
									"after {} in {} at {:?}: account {} recovers to (unspent, spendable, total) = {:?}, the fault-free run to {:?}",
									fk, kind, step.fault, label, (got.0, got.3, got.4), (w0.0, w0.3, w0.4)
								),
							));
							return v;
						}
					}
				}
			}
			_ => run.cov.not_judged("no_reference_recovery"),
		}
		v
	}

	/// fault-free twin from the same directory snapshot: points visited + reference
	fn twin(run: &mut Run, w: usize, step: &Step, saved: &Saved) -> (Vec<String>, BTreeMap<String, u64>, Result<Recovered, String>) {
		let mut clean = step.clone();
		clean.fault = None;
		let out = run.ex.exec(&clean, &mut no_custom);
		let files = crate::hooks::visited_files();
		let r = if out.panic.is_some() {
			Err("fault-free run panicked".to_owned())
		} else {
			match catch_unwind(AssertUnwindSafe(|| Self::recover(run, w))) {
				Ok(r) => r,
				Err(_) => Err("recovery panicked".into()),
			}
		};
		let _ = Self::restore(run, saved);
		(out.visited, files, r)
	}
}

impl Prop for C06 {
	fn id(&self) -> &'static str {
		"C06"
	}
	fn owns_panic(&self, _step: &Step) -> bool {
		true
	}

	fn next(&mut self, run: &mut Run) -> Option<Step> {
		if self.gen.in_setup() || run.trace.len() < self.history_len {
			return self.gen.next(run);
		}
		if self.targets_done >= self.max_targets {
			return None;
		}
		// the generator's next natural wallet operation is the target
		let mut target = None;
		for _ in 0..12 {
			let s = self.gen.next(run)?;
			if eligible(&s) {
				if let Some(w) = s.wallet() {
					if w < run.ex.world.wallets.len() && run.ex.world.is_open(w) {
						target = Some(s);
						break;
					}
				}
			}
		}
		let mut target = target?;
		target.fault = None;
		target.node_fail = None;
		self.targets_done += 1;
		let w = target.wallet().unwrap();
		run.ex.world.chain.set_down(false);
		let saved = Self::save(run, w);
		let (points, files, reference) = Self::twin(run, w, &target, &saved);
		self.reference = Some(reference.clone());
		self.cached_for = Some(serde_json::to_string(&target).unwrap());
		if reference.is_err() {
			run.cov.not_judged("target_without_reference");
		}
		// enumerate
		let mut variants: Vec<Fault> = vec![];
		for p in &points {
			let mut it = p.split('#');
			let name = it.next().unwrap_or("").to_owned();
			let nth: u32 = it.next().and_then(|x| x.parse().ok()).unwrap_or(1);
			variants.push(Fault {
				point: name.clone(),
				nth,
				kind: FaultKind::Crash,
			});
			variants.push(Fault {
				point: name.clone(),
				nth,
				kind: FaultKind::Fail,
			});
			if let Some(len) = files.get(p) {
				let mut lens: Vec<u64> = vec![0, 1, (*len / 2) | 1, len.saturating_sub(1)];
				if self.trunc_all {
					let mut r = crate::rng::SimRng::new(*len ^ 0x7c);
					for _ in 0..12 {
						lens.push(r.below(*len + 1));
					}
				}
				lens.sort();
				lens.dedup();
				for l in lens {
					variants.push(Fault {
						point: name.clone(),
						nth,
						kind: FaultKind::TruncCrash(l),
					});
				}
			}
		}
		if run.cov.samples.len() < 2 {
			run.cov.sample(json!({
				"history": sample_trace(run, 40),
				"target": target,
				"points": points,
				"variants": variants.len(),
			}));
		}
		let pre_digest = crate::rng::hash_str(&format!("{:?}", run.ex.world.snap(w).full_proj()));
		for f in variants {
			let mut st = target.clone();
			st.fault = Some(f.clone());
			let out = run.ex.exec(&st, &mut no_custom);
			self.enumerated += 1;
			let tag = format!("{}:{}", f.point, crate::run::kind_name(&f.kind));
			run.cov.case(
				&format!("{:x}|{}|{}#{}|{:?}", pre_digest, st.kind(), f.point, f.nth, f.kind),
				out.fault_fired,
			);
			if out.fault_fired {
				run.cov.fault(&tag);
				*run
					.cov
					.outcomes
					.entry(format!("{}:{}", st.kind(), tag))
					.or_insert(0) += 1;
			}
			let viol = if out.fault_fired || out.panic.is_some() {
				Self::judge(run, w, &st, &out, &self.reference)
			} else {
				vec![]
			};
			if let Err(e) = Self::restore(run, &saved) {
				run.cov
					.aborted
					.entry(format!("harness:restore failed: {}", e))
					.and_modify(|x| *x += 1)
					.or_insert(1);
				return None;
			}
			if !viol.is_empty() {
				// hand the violating variant to the engine: it is executed again
				// from the restored snapshot and judged in after()
				self.cached_for = Some(serde_json::to_string(&target).unwrap());
				return Some(st);
			}
		}
		// no variant violates: make progress with the fault-free target
		Some(target)
	}

	fn before(&mut self, run: &mut Run, step: &Step) {
		if step.fault.is_none() {
			return;
		}
		let mut clean = step.clone();
		clean.fault = None;
		let key = serde_json::to_string(&clean).unwrap();
		if self.cached_for.as_ref() == Some(&key) && self.reference.is_some() {
			return;
		}
		// replay mode: compute the fault-free twin now
		if let Some(w) = step.wallet() {
			if w < run.ex.world.wallets.len() && run.ex.world.is_open(w) {
				let saved = Self::save(run, w);
				let (_, _, reference) = Self::twin(run, w, step, &saved);
				self.reference = Some(reference);
				self.cached_for = Some(key);
			}
		}
	}

	fn after(&mut self, run: &mut Run, step: &Step, out: &StepOut) -> Vec<Violation> {
		self.gen.feedback(run, step, out);
		if step.fault.is_none() {
			self.reference = None;
			self.cached_for = None;
			return vec![];
		}
		let w = match step.wallet() {
			Some(w) if w < run.ex.world.wallets.len() => w,
			_ => return vec![],
		};
		if !(out.fault_fired || out.panic.is_some()) {
			return vec![];
		}
		// the generic engine has already reported a panic in the step itself
		if out.panic.is_some() {
			return vec![];
		}
		let reference = self.reference.clone();
		Self::judge(run, w, step, out, &reference)
	}
}
