//! In-process JSON-RPC: requests are fed to the same handler objects the hyper
//! server would call (`api::Handler::post` with an in-memory body); no sockets,
//! no tokio runtime.

use crate::chain::SimNodeClient;
use crate::world::{World, LC};
use grin_api::Handler;
use grin_keychain::ExtKeychain;
use grin_util::secp::key::SecretKey;
use grin_util::Mutex;
use grin_wallet_controller::controller::{ForeignAPIHandlerV2, OwnerAPIHandlerV3};
use hyper::{Body, Request};
use std::sync::Arc;

pub struct RpcEndpoints {
	pub owner: OwnerAPIHandlerV3<LC, SimNodeClient, ExtKeychain>,
	pub foreign: ForeignAPIHandlerV2<LC, SimNodeClient, ExtKeychain>,
	pub mask: Arc<Mutex<Option<SecretKey>>>,
}

impl RpcEndpoints {
	pub fn new(world: &World, w: usize) -> Option<RpcEndpoints> {
		let inst = world.wallets[w].inst.as_ref()?.clone();
		let mask = Arc::new(Mutex::new(world.mask(w)));
		let owner = OwnerAPIHandlerV3::new(inst.clone(), mask.clone(), None, false);
		let foreign = ForeignAPIHandlerV2::new(inst, mask.clone(), false, Mutex::new(None));
		Some(RpcEndpoints {
			owner,
			foreign,
			mask,
		})
	}

	fn run(fut: grin_api::ResponseFuture) -> (u16, String) {
		match futures::executor::block_on(fut) {
			Ok(resp) => {
				let status = resp.status().as_u16();
				let body = futures::executor::block_on(hyper::body::to_bytes(resp.into_body()))
					.map(|b| String::from_utf8_lossy(&b).to_string())
					.unwrap_or_default();
				(status, body)
			}
			Err(e) => (599, format!("{}", e)),
		}
	}

	pub fn post_owner(&self, body: &[u8]) -> (u16, String) {
		let req = Request::post("http://sim/v3/owner")
			.body(Body::from(body.to_vec()))
			.unwrap();
		Self::run(self.owner.post(req))
	}

	/// A request whose body is slow: the listener gets the request head (the handler
	/// future is polled once and waits for the body), then `between` runs - other
	/// requests are served completely meanwhile - and only then the body arrives.
	/// Returns None when the handler answered without waiting for the body.
	pub fn post_owner_slow(&self, body: &[u8], between: &mut dyn FnMut()) -> (u16, String, bool) {
		use std::future::Future;
		use std::task::{Context, Poll};
		let (mut tx, b) = Body::channel();
		let req = Request::post("http://sim/v3/owner").body(b).unwrap();
		let mut fut = self.owner.post(req);
		let waker = futures::task::noop_waker();
		let mut cx = Context::from_waker(&waker);
		let mut waited = false;
		if let Poll::Pending = fut.as_mut().poll(&mut cx) {
			waited = true;
			between();
			let _ = tx.try_send_data(hyper::body::Bytes::from(body.to_vec()));
			// a second poll lets the handler take the chunk before the stream ends
			let _ = fut.as_mut().poll(&mut cx);
		} else {
			// answered already (cannot happen for a handler that reads its body)
			return (598, String::new(), false);
		}
		drop(tx);
		let (st, body) = Self::run(fut);
		(st, body, waited)
	}

	pub fn post_foreign(&self, body: &[u8]) -> (u16, String) {
		let req = Request::post("http://sim/v2/foreign")
			.body(Body::from(body.to_vec()))
			.unwrap();
		Self::run(self.foreign.post(req))
	}
}
