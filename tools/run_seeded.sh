#!/bin/bash
# run_seeded.sh <seeded-id> <property> [tier]  : apply the seeded patch to /repo, run the check, undo
set -u
ID="$1"; PROP="$2"; TIER="${3:-quick}"
cd /repo || exit 2
git diff --quiet || { echo "/repo has uncommitted changes"; exit 2; }
git apply /verif/seeded/$ID/patch.diff || { echo "patch does not apply"; exit 2; }
cd /verif && ./check $PROP $TIER > /tmp/seeded-$ID-$PROP.log 2>&1; RC=$?
git -C /repo checkout -- .
echo "seeded=$ID property=$PROP tier=$TIER exit=$RC"
grep -E "^VIOLATION|^  oracle|KNOWN-FINDING|gwsim batch" /tmp/seeded-$ID-$PROP.log | cut -c1-400
