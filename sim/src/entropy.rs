//! Entropy seam: the simulator binary itself defines the libc symbols
//! `getrandom` and `syscall`, so that every consumer of OS randomness in the
//! process (std RandomState, rand 0.5-0.8 OsRng/thread_rng, uuid, age) is served
//! from a stream derived from the run's seed. Every other syscall number is
//! forwarded to the kernel unchanged.
//!
//! Each OS thread has its own sub-stream keyed by (seed, ordinal). The main
//! thread is ordinal 0; threads started by the simulator set their ordinal
//! explicitly; other threads get ordinals from a counter on first use.

use crate::rng::{mix, splitmix};
use std::cell::Cell;
use std::sync::atomic::{AtomicBool, AtomicU64, Ordering};

static ENABLED: AtomicBool = AtomicBool::new(false);
static SEED: AtomicU64 = AtomicU64::new(0);
static NEXT_ORDINAL: AtomicU64 = AtomicU64::new(1000);
pub static BYTES_SERVED: AtomicU64 = AtomicU64::new(0);
pub static CALLS_SERVED: AtomicU64 = AtomicU64::new(0);

thread_local! {
	static ORDINAL: Cell<u64> = Cell::new(u64::MAX);
	static STATE: Cell<u64> = Cell::new(0);
	static INIT: Cell<bool> = Cell::new(false);
}

/// Enable the deterministic stream for the whole process
pub fn enable(seed: u64) {
	SEED.store(seed, Ordering::SeqCst);
	ENABLED.store(true, Ordering::SeqCst);
	set_thread_ordinal(0);
}

/// Re-key the current thread's stream (used to derive per-phase streams)
pub fn set_thread_ordinal(ord: u64) {
	ORDINAL.with(|o| o.set(ord));
	let s = mix(&[SEED.load(Ordering::SeqCst), ord, 0xe17]);
	STATE.with(|st| st.set(s));
	INIT.with(|i| i.set(true));
}

/// Re-key the current thread's stream from an explicit key
pub fn rekey_thread(key: u64) {
	let ord = ORDINAL.with(|o| o.get());
	let s = mix(&[SEED.load(Ordering::SeqCst), ord, key, 0xbee]);
	STATE.with(|st| st.set(s));
	INIT.with(|i| i.set(true));
}

fn fill(buf: &mut [u8]) {
	if !INIT.with(|i| i.get()) {
		let ord = NEXT_ORDINAL.fetch_add(1, Ordering::SeqCst);
		set_thread_ordinal(ord);
	}
	let mut s = STATE.with(|st| st.get());
	let mut i = 0;
	while i < buf.len() {
		let x = splitmix(&mut s).to_le_bytes();
		for b in x.iter() {
			if i < buf.len() {
				buf[i] = *b;
				i += 1;
			}
		}
	}
	STATE.with(|st| st.set(s));
	BYTES_SERVED.fetch_add(buf.len() as u64, Ordering::Relaxed);
	CALLS_SERVED.fetch_add(1, Ordering::Relaxed);
}

#[cfg(all(target_os = "linux", target_arch = "x86_64"))]
unsafe fn raw_syscall(
	n: libc::c_long,
	a1: libc::c_long,
	a2: libc::c_long,
	a3: libc::c_long,
	a4: libc::c_long,
	a5: libc::c_long,
	a6: libc::c_long,
) -> libc::c_long {
	let ret: libc::c_long;
	core::arch::asm!(
		"syscall",
		inlateout("rax") n => ret,
		in("rdi") a1,
		in("rsi") a2,
		in("rdx") a3,
		in("r10") a4,
		in("r8") a5,
		in("r9") a6,
		lateout("rcx") _,
		lateout("r11") _,
		options(nostack)
	);
	ret
}

/// libc `getrandom` override
#[no_mangle]
pub unsafe extern "C" fn getrandom(
	buf: *mut libc::c_void,
	buflen: libc::size_t,
	flags: libc::c_uint,
) -> libc::ssize_t {
	if ENABLED.load(Ordering::SeqCst) {
		if buflen > 0 && !buf.is_null() {
			let s = std::slice::from_raw_parts_mut(buf as *mut u8, buflen);
			fill(s);
		}
		return buflen as libc::ssize_t;
	}
	let r = raw_syscall(
		libc::SYS_getrandom,
		buf as libc::c_long,
		buflen as libc::c_long,
		flags as libc::c_long,
		0,
		0,
		0,
	);
	if r < 0 && r > -4096 {
		*libc::__errno_location() = (-r) as libc::c_int;
		return -1;
	}
	r as libc::ssize_t
}

/// libc `syscall` override (variadic in C; six register arguments on x86_64)
#[no_mangle]
pub unsafe extern "C" fn syscall(
	n: libc::c_long,
	a1: libc::c_long,
	a2: libc::c_long,
	a3: libc::c_long,
	a4: libc::c_long,
	a5: libc::c_long,
	a6: libc::c_long,
) -> libc::c_long {
	if n == libc::SYS_getrandom && ENABLED.load(Ordering::SeqCst) {
		let buf = a1 as *mut u8;
		let len = a2 as usize;
		if len > 0 && !buf.is_null() {
			let s = std::slice::from_raw_parts_mut(buf, len);
			fill(s);
		}
		return len as libc::c_long;
	}
	let r = raw_syscall(n, a1, a2, a3, a4, a5, a6);
	if r < 0 && r > -4096 {
		*libc::__errno_location() = (-r) as libc::c_int;
		return -1;
	}
	r
}
