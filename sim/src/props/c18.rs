//! C18 — a reorganised-away incoming payment is found reverted by scan, never spendable.

use crate::gen::{GenCfg, HistGen};
use crate::model::DealKind;
use crate::ops::{Op, Step, StepOut};
use crate::run::{sample_trace, Prop, Run, Violation};
use crate::world::Snap;
use grin_util::ToHex;
use grin_wallet_libwallet::{OutputStatus, TxLogEntryType};
use std::collections::BTreeSet;

pub struct C18 {
	gen: HistGen,
	pre: Option<(usize, Snap)>,
	/// (wallet, slate id) of received entries the wallet has reported confirmed
	confirmed_seen: BTreeSet<(usize, uuid::Uuid)>,
	queue: Vec<Step>,
	forks: u32,
}

impl C18 {
	pub fn new(run: &mut Run) -> C18 {
		let mut cfg = GenCfg::swarm(run);
		cfg.boundary_args = false;
		cfg.w_fork = 0; // forks come from the script below, aimed at receiving blocks
		cfg.w_mine += 6;
		cfg.w_refresh += 6;
		cfg.w_cancel = 0;
		cfg.w_new_send += 6;
		cfg.allow_late_lock = false;
		cfg.allow_self_send = false;
		cfg.avoid_self_invoice = true;
		cfg.avoid_spend_unconfirmed = true;
		let gen = HistGen::new(cfg, run);
		C18 {
			gen,
			pre: None,
			confirmed_seen: BTreeSet::new(),
			queue: vec![],
			forks: 0,
		}
	}

	fn judge_scan(&mut self, run: &mut Run, w: usize, what: &str) -> Vec<Violation> {
		let mut v = vec![];
		let snap = run.ex.world.snap(w);
		let truth = run.ex.world.truth(w);
		let active = match snap.acct_path(&snap.active) {
			Some(a) => a,
			None => return v,
		};
		for d in run.model.deals.clone().iter() {
			if d.payee != Some(w) || d.kind != DealKind::Send {
				continue;
			}
			if !self.confirmed_seen.contains(&(w, d.id)) {
				continue;
			}
			let e = snap.txs.iter().find(|t| {
				t.tx_slate_id == Some(d.id)
					&& matches!(
						t.tx_type,
						TxLogEntryType::TxReceived | TxLogEntryType::TxReverted
					)
			});
			let e = match e {
				Some(e) => e.clone(),
				None => continue,
			};
			if e.parent_key_id != active {
				run.cov.not_judged("reverted_entry_in_non_active_account");
				continue;
			}
			let on_chain = d.mined.is_some();
			let depth_below_tip = run.ex.world.chain.height().saturating_sub(d.mined.unwrap_or(0));
			run.cov.case(
				&format!(
					"{}|{}|{:?}|{}|{}|{}",
					what,
					on_chain,
					e.tx_type,
					run.ex.world.chain.forks,
					std::cmp::min(depth_below_tip, 6),
					d.ever_mined
				),
				!on_chain,
			);
			let outs: Vec<_> = snap
				.outputs
				.iter()
				.filter(|o| o.tx_log_entry == Some(e.id) && o.root_key_id == e.parent_key_id)
				.collect();
			if !on_chain {
				run.cov.probe("scan_after_payment_reorged_away");
				if e.tx_type != TxLogEntryType::TxReverted || e.confirmed {
					// known defect: the received output had meanwhile been reserved (or
					// spent) by a transaction of this wallet, so the refresh does not
					// consider it for revert detection
					let respent = !outs.iter().any(|_| true)
						|| snap.outputs.iter().any(|o| {
							d.payee == Some(w)
								&& o.value == d.amount
								&& o.root_key_id == e.parent_key_id
								&& o.tx_log_entry != Some(e.id)
								&& (o.status == OutputStatus::Spent || o.status == OutputStatus::Locked)
						});
					let sig = if respent {
						"reorged_payment_not_reverted:output_reserved_by_later_tx"
					} else {
						"reorged_payment_not_reverted"
					};
					v.push(run.viol(
						"reported_reverted",
						sig,
						format!(
							"wallet {}: after {} on a chain without the kernel, entry {} is {:?} confirmed={}",
							w, what, e.id, e.tx_type, e.confirmed
						),
					));
					return v;
				}
				for o in &outs {
					if o.status == OutputStatus::Unspent || o.status == OutputStatus::Locked {
						v.push(run.viol(
							"not_spendable",
							"reorged_output_still_spendable",
							format!("wallet {}: output {} of the reverted payment is {}", w, o.key_id.to_hex(), o.status),
						));
						return v;
					}
				}
				if let Some(i) = run.ex.world.info(w, &active, 1) {
					let rv: u64 = outs.iter().filter(|o| o.status == OutputStatus::Reverted).map(|o| o.value).sum();
					if i.amount_reverted < rv {
						v.push(run.viol(
							"not_spendable",
							"reverted_amount_not_reported",
							format!("wallet {}: amount_reverted {} < reverted outputs {}", w, i.amount_reverted, rv),
						));
						return v;
					}
				}
			}
		}
		// totals count only what the chain holds (orphaned coinbases are gone)
		if let Some(i) = run.ex.world.info(w, &active, 1) {
			let tru: u64 = truth
				.iter()
				.filter(|t| t.acct == active)
				.filter(|t| {
					// reserved outputs are reported under "locked", not "total"
					!snap.outputs.iter().any(|o| {
						o.status == OutputStatus::Locked && run.ex.world.commit_of(w, o) == t.commit
					})
				})
				.map(|t| t.value)
				.sum();
			if i.total > tru {
				v.push(run.viol(
					"not_counted",
					"total_counts_value_not_on_chain",
					format!(
						"wallet {}: after {} the reported total {} exceeds the value of this account's outputs in the unspent set {} (orphaned coinbase or reverted payment still counted)",
						w, what, i.total, tru
					),
				));
				return v;
			}
		}
		v
	}
}

impl Prop for C18 {
	fn id(&self) -> &'static str {
		"C18"
	}

	fn next(&mut self, run: &mut Run) -> Option<Step> {
		if let Some(mut s) = self.queue.pop() {
			// "never selects a reverted output" holds for every minimum-confirmation
			// setting; 0 is otherwise avoided (known family: spending unconfirmed outputs),
			// so it is used only while the wallet holds no unconfirmed output
			if let Op::InitSend { w, args } = &mut s.op {
				if *w < run.ex.world.wallets.len() && run.ex.world.is_open(*w) {
					let snap = run.ex.world.snap(*w);
					let has_rev = snap.outputs.iter().any(|o| o.status == OutputStatus::Reverted);
					let has_unconf = snap.outputs.iter().any(|o| o.status == OutputStatus::Unconfirmed);
					if has_rev && !has_unconf && run.rng.chance(1, 2) {
						args.min_conf = 0;
						run.cov.probe("zero_conf_send_while_holding_reverted_output");
					}
				}
			}
			return Some(s);
		}
		if self.gen.setup_done && run.rng.chance(1, 7) && self.forks < 4 {
			// aim a fork at a block holding a confirmed incoming payment
			let tip = run.ex.world.chain.height();
			let cands: Vec<(usize, u64)> = run
				.model
				.deals
				.iter()
				.filter(|d| d.mined.is_some() && d.payee.is_some())
				.map(|d| (d.payee.unwrap(), d.mined.unwrap()))
				.collect();
			if !cands.is_empty() {
				let (w, h) = *run.rng.pick(&cands);
				let depth_to_block = tip + 1 - h; // removes the receiving block
				let depth = match run.rng.below(4) {
					0 => depth_to_block.saturating_sub(1).max(1), // just above: tx stays
					1 => depth_to_block + 1,
					_ => depth_to_block,
				};
				if depth >= 1 && depth <= 6 && depth < tip {
					self.forks += 1;
					let include = run.rng.chance(1, 3);
					let readd = run.rng.chance(1, 2);
					// make sure the wallet has seen the payment confirmed, then fork, then
					// scans / refreshes at arbitrary points, possibly a flip-flop
					let mut q = vec![];
					q.push(Step::new(Op::Refresh { w }));
					q.push(Step::new(Op::Fork { depth, extra: run.rng.range(1, 2), include, readd }));
					if run.rng.chance(1, 2) {
						q.push(Step::new(Op::Refresh { w }));
					}
					if run.rng.chance(1, 2) {
						// the node fails one call of the first scan after the fork (a scan makes
						// a handful: tip, outputs, kernels, PMMR ranges); whatever that scan
						// answers, the clean one after it must find the payment reverted
						let mut st = Step::new(Op::Scan { w, start: None, del: false });
						st.node_fail = Some((run.rng.range(1, 8) as u32, false));
						q.push(st);
						run.cov.probe("node_failed_one_call_of_the_scan_after_a_fork");
					}
					q.push(Step::new(Op::Scan { w, start: None, del: false }));
					if run.rng.chance(1, 2) {
						let a = self.gen.send_args(run, w);
						q.push(Step::new(Op::InitSend { w, args: a }));
					}
					if run.rng.chance(1, 2) {
						q.push(Step::new(Op::Mine { w: None, n: 1, txs: true }));
						q.push(Step::new(Op::Refresh { w }));
					}
					q.reverse();
					self.queue = q;
					return self.queue.pop();
				}
			}
		}
		self.gen.next(run)
	}

	fn before(&mut self, run: &mut Run, step: &Step) {
		self.pre = None;
		if let Some(w) = step.wallet() {
			if w < run.ex.world.wallets.len() && run.ex.world.is_open(w) {
				self.pre = Some((w, run.ex.world.snap(w)));
			}
		}
	}

	fn after(&mut self, run: &mut Run, step: &Step, out: &StepOut) -> Vec<Violation> {
		let mut v = vec![];
		self.gen.feedback(run, step, out);
		// remember which incoming payments each wallet has reported confirmed
		for w in 0..run.ex.world.wallets.len() {
			if !run.ex.world.is_open(w) {
				continue;
			}
			let s = run.ex.world.snap(w);
			for t in &s.txs {
				if t.tx_type == TxLogEntryType::TxReceived && t.confirmed {
					if let Some(id) = t.tx_slate_id {
						self.confirmed_seen.insert((w, id));
					}
				}
			}
		}
		match &step.op {
			Op::Scan { w, .. } if out.ok && run.ex.world.is_open(*w) => {
				v.extend(self.judge_scan(run, *w, "scan"));
			}
			Op::Refresh { w } if out.ok && out.validated == Some(true) && run.ex.world.is_open(*w) => {
				// once the transaction is mined again an ordinary refresh reports it
				// confirmed and spendable again
				let snap = run.ex.world.snap(*w);
				if let Some((pw, pre)) = &self.pre {
					if pw == w {
						for t in pre.txs.iter().filter(|t| t.tx_type == TxLogEntryType::TxReverted) {
							let id = match t.tx_slate_id {
								Some(i) => i,
								None => continue,
							};
							let mined = run
								.model
								.deal_of(&id)
								.map(|d| run.model.deals[d].mined.is_some())
								.unwrap_or(false);
							if Some(&t.parent_key_id) != snap.acct_path(&snap.active).as_ref() {
								continue;
							}
							run.cov.case(&format!("refresh_while_reverted|{}", mined), true);
							let now = snap.txs.iter().find(|x| x.id == t.id && x.parent_key_id == t.parent_key_id);
							if let Some(now) = now {
								if mined {
									run.cov.probe("reverted_payment_mined_again");
									let outs_ok = snap
										.outputs
										.iter()
										.filter(|o| o.tx_log_entry == Some(t.id) && o.root_key_id == t.parent_key_id)
										.all(|o| o.status == OutputStatus::Unspent);
									if now.tx_type != TxLogEntryType::TxReceived || !now.confirmed || !outs_ok {
										v.push(run.viol(
											"reconfirmed",
											"re_mined_payment_not_reconfirmed",
											format!(
												"wallet {}: the reverted payment {} is on chain again but after a refresh its entry is {:?} confirmed={} outputs unspent={}",
												w, id, now.tx_type, now.confirmed, outs_ok
											),
										));
										return v;
									}
								}
							}
						}
					}
				}
			}
			Op::InitSend { w, .. } if out.ok => {
				// a reverted output is never selected as an input
				if let (Some((pw, pre)), Some(m)) = (&self.pre, out.new_msg) {
					if pw == w {
						let id = run.ex.msgs[m].slate.id;
						if let Some(ctx) = run.ex.world.get_context(*w, id.as_bytes()) {
							for (k, mmr, _) in &ctx.input_ids {
								let rec = pre.outputs.iter().find(|o| o.key_id == *k && o.mmr_index == *mmr);
								if let Some(r) = rec {
									// the embedded refresh may have re-confirmed it: judge against
									// the chain at the time of selection
									let c = run.ex.world.commit_of(*w, r);
									let on_chain = run.ex.world.chain.is_unspent(&c).is_some();
									if r.status == OutputStatus::Reverted && !on_chain {
										v.push(run.viol(
											"not_spendable",
											"reverted_output_selected",
											format!("wallet {}: a new transaction selected the reverted output {}", w, k.to_hex()),
										));
										return v;
									}
								}
							}
							if pre.outputs.iter().any(|o| o.status == OutputStatus::Reverted) {
								run.cov.case("send_while_reverted", true);
							}
						}
					}
				}
			}
			_ => {}
		}
		if run.trace.len() == 24 {
			let s = sample_trace(run, 24);
			run.cov.sample(s);
		}
		v
	}
}
