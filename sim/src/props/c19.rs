//! C19 — transaction-log queries return exactly what was asked for.
//!
//! Reference filter written from the RetrieveTxQueryArgs field documentation.
//! Where the documentation leaves two readings open (see `Tri::Either`) an entry
//! may or may not be returned; everything else is required or forbidden.

use crate::gen::{GenCfg, HistGen};
use crate::ops::{Exec, Op, OpRes, Step, StepOut};
use crate::run::{sample_trace, Prop, Run, Violation};
use chrono::{DateTime, Duration, TimeZone, Utc};
use grin_wallet_libwallet::{
	RetrieveTxQueryArgs, RetrieveTxQuerySortField, RetrieveTxQuerySortOrder, TxLogEntry,
	TxLogEntryType,
};
use serde_json::{json, Value};

pub struct C19 {
	gen: HistGen,
	queries: u64,
	/// reading of the amount bounds the wallet was seen to apply -> example
	amount_readings: std::collections::BTreeMap<String, String>,
	queue: Vec<Step>,
	cancelled_sends_left: u32,
	/// scripted: a confirmed incoming payment is re-organised away and found reverted
	/// (an entry that has a confirmation time but is not confirmed), then queried
	reverts_left: u32,
}

#[derive(Clone, Copy, PartialEq, Debug)]
enum Tri {
	Yes,
	No,
	Either,
}

fn and(a: Tri, b: Tri) -> Tri {
	match (a, b) {
		(Tri::No, _) | (_, Tri::No) => Tri::No,
		(Tri::Yes, Tri::Yes) => Tri::Yes,
		_ => Tri::Either,
	}
}

fn b(x: bool) -> Tri {
	if x {
		Tri::Yes
	} else {
		Tri::No
	}
}

fn ts(ms: i64) -> DateTime<Utc> {
	Utc.timestamp_opt(ms.div_euclid(1000), (ms.rem_euclid(1000) * 1_000_000) as u32)
		.single()
		.unwrap()
}

fn is_cancelled(t: &TxLogEntry) -> bool {
	t.tx_type == TxLogEntryType::TxSentCancelled || t.tx_type == TxLogEntryType::TxReceivedCancelled
}

/// does entry t satisfy query q?
fn matches(t: &TxLogEntry, q: &RetrieveTxQueryArgs) -> Tri {
	let mut r = Tri::Yes;
	if let Some(v) = q.min_id {
		r = and(r, b(t.id >= v));
	}
	if let Some(v) = q.max_id {
		r = and(r, b(t.id <= v));
	}
	if q.exclude_cancelled == Some(true) {
		r = and(r, b(!is_cancelled(t)));
	}
	if q.include_outstanding_only == Some(true) {
		// "outstanding": unconfirmed; whether a cancelled (never to be confirmed)
		// entry still counts is left open
		r = and(
			r,
			if t.confirmed {
				Tri::No
			} else if is_cancelled(t) {
				Tri::Either
			} else {
				Tri::Yes
			},
		);
	}
	if q.include_confirmed_only == Some(true) {
		r = and(r, b(t.confirmed));
	}
	if q.include_sent_only == Some(true) {
		r = and(
			r,
			match t.tx_type {
				// a cancelled send is still a send: cancellation has its own criterion
				// (exclude_cancelled), and "criteria that are omitted do not filter"
				TxLogEntryType::TxSent | TxLogEntryType::TxSentCancelled => Tri::Yes,
				_ => Tri::No,
			},
		);
	}
	if q.include_received_only == Some(true) {
		r = and(
			r,
			match t.tx_type {
				// likewise a cancelled receive is still a receive (seeded change C19-d)
				TxLogEntryType::TxReceived | TxLogEntryType::TxReceivedCancelled => Tri::Yes,
				TxLogEntryType::TxReverted => Tri::Either,
				_ => Tri::No,
			},
		);
	}
	if q.include_coinbase_only == Some(true) {
		r = and(r, b(t.tx_type == TxLogEntryType::ConfirmedCoinbase));
	}
	if q.include_reverted_only == Some(true) {
		r = and(r, b(t.tx_type == TxLogEntryType::TxReverted));
	}
	// amount: documented as credited - debited; for sent entries the magnitude is
	// the other sensible reading
	let signed = t.amount_credited as i128 - t.amount_debited as i128;
	let magnitude = signed.abs();
	let amt = |f: &dyn Fn(i128) -> bool| -> Tri {
		let a = f(signed);
		let m = f(magnitude);
		if a == m {
			b(a)
		} else {
			Tri::Either
		}
	};
	if let Some(v) = q.min_amount {
		r = and(r, amt(&|x| x >= v as i128));
	}
	if let Some(v) = q.max_amount {
		r = and(r, amt(&|x| x <= v as i128));
	}
	if let Some(v) = q.min_creation_timestamp {
		r = and(r, b(t.creation_ts >= v));
	}
	if let Some(v) = q.max_creation_timestamp {
		r = and(r, b(t.creation_ts <= v));
	}
	if let Some(v) = q.min_confirmed_timestamp {
		r = and(
			r,
			match t.confirmation_ts {
				Some(c) => b(c >= v),
				None => Tri::Either,
			},
		);
	}
	if let Some(v) = q.max_confirmed_timestamp {
		r = and(
			r,
			match t.confirmation_ts {
				Some(c) => b(c <= v),
				None => Tri::Either,
			},
		);
	}
	r
}

/// sort key; None when the key is not comparable under every reading
fn sort_key(t: &TxLogEntry, f: &RetrieveTxQuerySortField) -> Option<i128> {
	match f {
		RetrieveTxQuerySortField::Id => Some(t.id as i128),
		RetrieveTxQuerySortField::CreationTimestamp => Some(t.creation_ts.timestamp_millis() as i128),
		RetrieveTxQuerySortField::ConfirmationTimestamp => {
			t.confirmation_ts.map(|c| c.timestamp_millis() as i128)
		}
		RetrieveTxQuerySortField::TotalAmount => {
			let signed = t.amount_credited as i128 - t.amount_debited as i128;
			if signed >= 0 {
				Some(signed)
			} else {
				None
			}
		}
		RetrieveTxQuerySortField::AmountCredited => Some(t.amount_credited as i128),
		RetrieveTxQuerySortField::AmountDebited => Some(t.amount_debited as i128),
	}
}

impl C19 {
	pub fn new(run: &mut Run) -> C19 {
		let mut cfg = GenCfg::swarm(run);
		cfg.w_clock = 6 + run.rng.below(8) as u32;
		cfg.w_cancel = 2 + run.rng.below(4) as u32;
		cfg.w_account = 2 + run.rng.below(3) as u32;
		cfg.extra_accounts = 1 + run.rng.below(2) as usize;
		cfg.boundary_args = false;
		cfg.w_new_invoice += 2;
		let gen = HistGen::new(cfg, run);
		let cancelled_sends_left = run.rng.below(3) as u32;
		let reverts_left = run.rng.below(3) as u32;
		C19 { gen, queries: 0, amount_readings: Default::default(), queue: vec![], cancelled_sends_left, reverts_left }
	}

	fn gen_query(run: &mut Run, w: usize) -> Value {
		let snap = run.ex.world.snap(w);
		let r = &mut run.rng;
		let txs = &snap.txs;
		// anchors for the bounds: any entry, with a bias towards the rarer kinds
		// (cancelled, reverted) so that criteria meet them at their boundary too
		let special: Vec<TxLogEntry> = txs
			.iter()
			.filter(|t| {
				matches!(
					t.tx_type,
					TxLogEntryType::TxSentCancelled | TxLogEntryType::TxReceivedCancelled | TxLogEntryType::TxReverted
				)
			})
			.cloned()
			.collect();
		// a direction-only query aimed at a cancelled entry: "sent only" / "received only"
		// must keep it unless exclude_cancelled is supplied (seeded change C19-d)
		let cancelled: Vec<&TxLogEntry> = special.iter().filter(|t| is_cancelled(t)).collect();
		if !cancelled.is_empty() && r.chance(1, 4) {
			let t = cancelled[r.idx(cancelled.len())];
			let mut q = json!({});
			let f = if t.tx_type == TxLogEntryType::TxSentCancelled { "include_sent_only" } else { "include_received_only" };
			q[f] = json!(true);
			match r.below(4) {
				0 => q["exclude_cancelled"] = json!(false),
				1 => q["min_id"] = json!(t.id),
				2 => q["max_id"] = json!(t.id),
				_ => {}
			}
			return q;
		}
		let pick_entry = |r: &mut crate::rng::SimRng| -> Option<TxLogEntry> {
			if txs.is_empty() {
				None
			} else if !special.is_empty() && r.chance(1, 3) {
				Some(special[r.idx(special.len())].clone())
			} else {
				Some(txs[r.idx(txs.len())].clone())
			}
		};
		let mut q = json!({});
		let around = |r: &mut crate::rng::SimRng, v: i128| -> i128 {
			match r.below(4) {
				0 => v - 1,
				1 => v + 1,
				_ => v,
			}
		};
		// each field present with probability 1/(1+p): sparse queries isolate a criterion
		let p_field = *r.pick(&[1u64, 2, 3, 6]);
		if let Some(t) = pick_entry(r) {
			if r.below(p_field + 1) == 0 {
				q["min_id"] = json!(std::cmp::max(0, around(r, t.id as i128)) as u32);
			}
		}
		if let Some(t) = pick_entry(r) {
			if r.below(p_field + 1) == 0 {
				q["max_id"] = json!(std::cmp::max(0, around(r, t.id as i128)) as u32);
			}
		}
		for f in [
			"exclude_cancelled",
			"include_outstanding_only",
			"include_confirmed_only",
			"include_sent_only",
			"include_received_only",
			"include_coinbase_only",
			"include_reverted_only",
		]
		.iter()
		{
			if r.below(p_field + 2) == 0 {
				q[*f] = json!(r.chance(3, 4));
			}
		}
		if let Some(t) = pick_entry(r) {
			if r.below(p_field + 1) == 0 {
				let net = (t.amount_credited as i128 - t.amount_debited as i128).abs();
				q["min_amount"] = json!(std::cmp::max(0, around(r, net)) as u64);
			}
		}
		if let Some(t) = pick_entry(r) {
			if r.below(p_field + 1) == 0 {
				let net = (t.amount_credited as i128 - t.amount_debited as i128).abs();
				q["max_amount"] = json!(std::cmp::max(0, around(r, net)) as u64);
			}
		}
		if let Some(t) = pick_entry(r) {
			if r.below(p_field + 1) == 0 {
				q["min_creation_ms"] = json!(around(r, t.creation_ts.timestamp_millis() as i128) as i64);
			}
		}
		if let Some(t) = pick_entry(r) {
			if r.below(p_field + 1) == 0 {
				q["max_creation_ms"] = json!(around(r, t.creation_ts.timestamp_millis() as i128) as i64);
			}
		}
		if let Some(t) = pick_entry(r) {
			if r.below(p_field + 1) == 0 {
				let c = t.confirmation_ts.unwrap_or(t.creation_ts);
				q["min_confirmed_ms"] = json!(around(r, c.timestamp_millis() as i128) as i64);
			}
		}
		if let Some(t) = pick_entry(r) {
			if r.below(p_field + 1) == 0 {
				let c = t.confirmation_ts.unwrap_or(t.creation_ts);
				q["max_confirmed_ms"] = json!(around(r, c.timestamp_millis() as i128) as i64);
			}
		}
		if r.chance(1, 2) {
			q["sort_field"] = json!(r.below(6));
		}
		if r.chance(1, 2) {
			q["desc"] = json!(r.chance(1, 2));
		}
		if r.chance(1, 3) {
			q["limit"] = json!(*r.pick(&[0u32, 1, 2, 3, 100]));
		}
		q
	}

	fn to_query(a: &Value) -> RetrieveTxQueryArgs {
		let ob = |k: &str| a.get(k).and_then(|v| v.as_bool());
		let ou32 = |k: &str| a.get(k).and_then(|v| v.as_u64()).map(|v| v as u32);
		let ou64 = |k: &str| a.get(k).and_then(|v| v.as_u64());
		let ots = |k: &str| a.get(k).and_then(|v| v.as_i64()).map(ts);
		RetrieveTxQueryArgs {
			min_id: ou32("min_id"),
			max_id: ou32("max_id"),
			limit: ou32("limit"),
			exclude_cancelled: ob("exclude_cancelled"),
			include_outstanding_only: ob("include_outstanding_only"),
			include_confirmed_only: ob("include_confirmed_only"),
			include_sent_only: ob("include_sent_only"),
			include_received_only: ob("include_received_only"),
			include_coinbase_only: ob("include_coinbase_only"),
			include_reverted_only: ob("include_reverted_only"),
			min_amount: ou64("min_amount"),
			max_amount: ou64("max_amount"),
			min_creation_timestamp: ots("min_creation_ms"),
			max_creation_timestamp: ots("max_creation_ms"),
			min_confirmed_timestamp: ots("min_confirmed_ms"),
			max_confirmed_timestamp: ots("max_confirmed_ms"),
			sort_field: a.get("sort_field").and_then(|v| v.as_u64()).map(|v| match v % 6 {
				0 => RetrieveTxQuerySortField::Id,
				1 => RetrieveTxQuerySortField::CreationTimestamp,
				2 => RetrieveTxQuerySortField::ConfirmationTimestamp,
				3 => RetrieveTxQuerySortField::TotalAmount,
				4 => RetrieveTxQuerySortField::AmountCredited,
				_ => RetrieveTxQuerySortField::AmountDebited,
			}),
			sort_order: a.get("desc").and_then(|v| v.as_bool()).map(|d| {
				if d {
					RetrieveTxQuerySortOrder::Desc
				} else {
					RetrieveTxQuerySortOrder::Asc
				}
			}),
		}
	}
}

impl Prop for C19 {
	fn id(&self) -> &'static str {
		"C19"
	}

	fn custom(&mut self, ex: &mut Exec, name: &str, a: &Value) -> OpRes {
		let w = a["w"].as_u64().unwrap_or(0) as usize;
		if w >= ex.world.wallets.len() || !ex.world.is_open(w) {
			return OpRes::Skipped("unavailable".into());
		}
		let owner = ex.world.owner(w);
		let mask = ex.world.mask(w);
		let res = match name {
			"query" => owner.retrieve_txs(mask.as_ref(), false, None, None, Some(Self::to_query(&a["q"]))),
			"lookup_id" => owner.retrieve_txs(
				mask.as_ref(),
				false,
				a["id"].as_u64().map(|x| x as u32),
				None,
				None,
			),
			"lookup_slate" => {
				let m = a["m"].as_u64().unwrap_or(0) as usize;
				if m >= ex.msgs.len() {
					return OpRes::Skipped("no such message".into());
				}
				owner.retrieve_txs(mask.as_ref(), false, None, Some(ex.msgs[m].slate.id), None)
			}
			_ => return OpRes::Skipped("unknown".into()),
		};
		match res {
			Ok((_, txs)) => {
				let ids: Vec<String> = txs
					.iter()
					.map(|t| format!("{}:{}", grin_util::ToHex::to_hex(&t.parent_key_id), t.id))
					.collect();
				OpRes::Ok {
					new_msg: None,
					note: ids.join(","),
					validated: None,
					new_wallet: None,
				}
			}
			Err(e) => OpRes::Err(format!("{}", e)),
		}
	}

	fn next(&mut self, run: &mut Run) -> Option<Step> {
		if let Some(s) = self.queue.pop() {
			if let Op::Custom { name, args } = &s.op {
				if name == "query_later" {
					let w = args["w"].as_u64().unwrap_or(0) as usize;
					if w < run.ex.world.wallets.len() && run.ex.world.is_open(w) {
						let mut q = Self::gen_query(run, w);
						// aim at the confirmation time of a reverted entry, if there is one
						let snap = run.ex.world.snap(w);
						if let Some(t) = snap.txs.iter().find(|t| t.tx_type == TxLogEntryType::TxReverted && t.confirmation_ts.is_some()) {
							let c = t.confirmation_ts.unwrap().timestamp_millis();
							let delta = *run.rng.pick(&[-1i64, 0, 1, 1000, -1000]);
							if run.rng.chance(1, 2) {
								q["min_confirmed_ms"] = json!(c + delta);
							} else {
								q["max_confirmed_ms"] = json!(c + delta);
							}
							run.cov.probe("confirmation_time_bound_aimed_at_a_reverted_entry");
						}
						return Some(Step::new(Op::Custom { name: "query".into(), args: json!({"w": w, "q": q}) }));
					}
					return self.next(run);
				}
			}
			return Some(s);
		}
		// the log should hold the rarer entry kinds too: a send that is reserved and
		// then cancelled leaves a cancelled sent entry with its amounts
		if self.gen.setup_done && self.cancelled_sends_left > 0 && run.rng.chance(1, 6) && run.ex.world.wallets.len() > 0 {
			let w = run.rng.idx(run.ex.world.wallets.len());
			if run.ex.world.is_open(w) && !run.ex.world.chain.is_down() {
				self.cancelled_sends_left -= 1;
				let m = run.ex.msgs.len();
				let mut a = self.gen.send_args(run, w);
				a.late_lock = false;
				a.estimate = false;
				a.src_acct = None;
				self.queue.push(Step::new(Op::Cancel { w, m: Some(m), id: None }));
				self.queue.push(Step::new(Op::Lock { w, m }));
				return Some(Step::new(Op::InitSend { w, args: a }));
			}
		}
		if self.gen.setup_done && self.reverts_left > 0 && run.rng.chance(1, 6) && !run.ex.world.chain.is_down() {
			let tip = run.ex.world.chain.height();
			let cands: Vec<(usize, u64)> = run
				.model
				.deals
				.iter()
				.filter(|d| d.mined.is_some() && d.payee.is_some() && d.payee != d.payer)
				.map(|d| (d.payee.unwrap(), d.mined.unwrap()))
				.collect();
			if !cands.is_empty() {
				let (w, h) = *run.rng.pick(&cands);
				let depth = tip + 1 - h;
				if depth >= 1 && depth <= 6 && depth < tip && run.ex.world.is_open(w) {
					self.reverts_left -= 1;
					run.cov.probe("confirmed_payment_reorged_away_then_queried");
					let mut q = vec![
						Step::new(Op::Refresh { w }),
						Step::new(Op::Clock { delta_ms: 1000 * run.rng.range(1, 4000) as i64 }),
						Step::new(Op::Fork { depth, extra: run.rng.range(1, 2), include: false, readd: run.rng.chance(1, 2) }),
						Step::new(Op::Scan { w, start: None, del: false }),
					];
					for _ in 0..3 {
						// the query itself is drawn when its turn comes (it anchors on the log
						// as it is then)
						q.push(Step::new(Op::Custom { name: "query_later".into(), args: json!({"w": w}) }));
					}
					q.reverse();
					self.queue = q;
					return self.queue.pop();
				}
			}
		}
		if self.gen.setup_done && run.ex.world.wallets.len() > 0 && run.rng.chance(1, 2) {
			let w = run.rng.idx(run.ex.world.wallets.len());
			if run.ex.world.is_open(w) {
				let k = run.rng.below(8);
				if k == 0 {
					let snap = run.ex.world.snap(w);
					let id = if snap.txs.is_empty() || run.rng.chance(1, 4) {
						run.rng.below(30) as u32
					} else {
						run.rng.pick(&snap.txs).id
					};
					return Some(Step::new(Op::Custom {
						name: "lookup_id".into(),
						args: json!({"w": w, "id": id}),
					}));
				} else if k == 1 && !run.ex.msgs.is_empty() {
					return Some(Step::new(Op::Custom {
						name: "lookup_slate".into(),
						args: json!({"w": w, "m": run.rng.idx(run.ex.msgs.len())}),
					}));
				}
				let q = Self::gen_query(run, w);
				return Some(Step::new(Op::Custom {
					name: "query".into(),
					args: json!({"w": w, "q": q}),
				}));
			}
		}
		self.gen.next(run)
	}

	fn after(&mut self, run: &mut Run, step: &Step, out: &StepOut) -> Vec<Violation> {
		let mut v = vec![];
		self.gen.feedback(run, step, out);
		if let Op::InitSend { .. } = &step.op {
			if out.new_msg.is_none() {
				// the scripted send did not start: drop its lock and cancel
				self.queue.clear();
			}
		}
		let (name, args) = match &step.op {
			Op::Custom { name, args } => (name.clone(), args.clone()),
			_ => return v,
		};
		if out.skipped {
			return v;
		}
		let w = args["w"].as_u64().unwrap_or(0) as usize;
		if !run.ex.world.is_open(w) {
			return v;
		}
		if !out.ok {
			v.push(run.viol(
				"query_answers",
				"query_failed",
				format!("wallet {}: {} failed: {:?}", w, name, out.err),
			));
			return v;
		}
		self.queries += 1;
		let snap = run.ex.world.snap(w);
		let acct = match snap.acct_path(&snap.active) {
			Some(a) => a,
			None => return v,
		};
		let hexa = grin_util::ToHex::to_hex(&acct);
		let got: Vec<(String, u32)> = out
			.note
			.split(',')
			.filter(|s| !s.is_empty())
			.filter_map(|s| {
				let mut it = s.split(':');
				Some((it.next()?.to_owned(), it.next()?.parse().ok()?))
			})
			.collect();
		let mine: Vec<&TxLogEntry> = snap.txs.iter().filter(|t| t.parent_key_id == acct).collect();
		let other_accounts = snap.txs.iter().any(|t| t.parent_key_id != acct);
		// entries of other accounts must never be returned
		for (a, id) in &got {
			if *a != hexa {
				v.push(run.viol(
					"active_account_only",
					&format!("{}:returned_other_account_entry", name),
					format!(
						"wallet {}: {} returned entry {} of account {} while {} is active",
						w,
						name,
						id,
						snap.accts.iter().find(|x| grin_util::ToHex::to_hex(&x.path) == *a).map(|x| x.label.clone()).unwrap_or_default(),
						snap.active
					),
				));
				return v;
			}
		}
		let got_ids: Vec<u32> = got.iter().map(|x| x.1).collect();
		match name.as_str() {
			"lookup_id" | "lookup_slate" => {
				let want: Vec<u32> = if name == "lookup_id" {
					let id = args["id"].as_u64().unwrap_or(0) as u32;
					mine.iter().filter(|t| t.id == id).map(|t| t.id).collect()
				} else {
					let m = args["m"].as_u64().unwrap_or(0) as usize;
					let sid = run.ex.msgs[m].slate.id;
					mine.iter()
						.filter(|t| t.tx_slate_id == Some(sid))
						.map(|t| t.id)
						.collect()
				};
				run.cov.case(&format!("{}|{}|{}", name, want.len(), other_accounts), mine.len() >= 2);
				let mut a = got_ids.clone();
				a.sort();
				let mut bb = want.clone();
				bb.sort();
				if a != bb {
					v.push(run.viol(
						"lookup_exact",
						&format!("{}:wrong_entries", name),
						format!("wallet {}: {} returned ids {:?}, expected {:?}", w, name, a, bb),
					));
				}
			}
			_ => {
				let q = Self::to_query(&args["q"]);
				let fields: Vec<String> = args["q"]
					.as_object()
					.map(|o| o.keys().cloned().collect())
					.unwrap_or_default();
				let verdicts: Vec<(u32, Tri)> = mine.iter().map(|t| (t.id, matches(t, &q))).collect();
				let discriminates = verdicts.iter().any(|x| x.1 == Tri::Yes)
					&& verdicts.iter().any(|x| x.1 == Tri::No);
				run.cov.case(&fields.join("+"), mine.len() >= 2 && discriminates);
				if other_accounts {
					run.cov.probe("query_with_other_accounts_present");
				}
				if mine.iter().any(|t| t.tx_type == TxLogEntryType::TxSentCancelled) {
					run.cov.probe("query_over_log_with_cancelled_sent_entry");
				}
				if q.include_received_only == Some(true)
					&& mine.iter().any(|t| t.tx_type == TxLogEntryType::TxReceivedCancelled)
				{
					run.cov.probe("received_only_query_over_log_with_cancelled_received_entry");
				}
				// forbidden entries
				for id in &got_ids {
					let vd = verdicts.iter().find(|x| x.0 == *id).map(|x| x.1);
					if vd == Some(Tri::No) || vd.is_none() {
						let t = mine.iter().find(|t| t.id == *id);
						// which criterion excludes it?
						let mut why = "unknown".to_owned();
						if let Some(t) = t {
							for f in &fields {
								let mut one = json!({});
								one[f.as_str()] = args["q"][f.as_str()].clone();
								if matches(t, &Self::to_query(&one)) == Tri::No {
									why = f.clone();
									break;
								}
							}
						}
						v.push(run.viol(
							"filter_exact",
							&format!("returned_entry_violates:{}", why),
							format!(
								"wallet {}: query {} returned entry {} which does not satisfy {}",
								w, args["q"], id, why
							),
						));
						return v;
					}
				}
				let limit = q.limit.map(|l| l as usize);
				if let Some(l) = limit {
					if got_ids.len() > l {
						v.push(run.viol(
							"limit",
							"limit_exceeded",
							format!("wallet {}: {} entries returned, limit {}", w, got_ids.len(), l),
						));
						return v;
					}
				}
				// required entries (when the limit did not cut)
				let cut = limit.map(|l| got_ids.len() >= l).unwrap_or(false);
				if !cut {
					for (id, vd) in &verdicts {
						if *vd == Tri::Yes && !got_ids.contains(id) {
							v.push(run.viol(
								"filter_exact",
								"matching_entry_missing",
								format!("wallet {}: query {} did not return matching entry {}", w, args["q"], id),
							));
							return v;
						}
					}
				}
				// the amount criteria may be read as signed (credited - debited, the
				// documentation) or as the transaction's total (the implementation, for
				// sent entries); whichever reading the wallet applies, it applies the same
				// one to every entry
				if !cut && (q.min_amount.is_some() || q.max_amount.is_some()) {
					let mut rest = args["q"].clone();
					if let Some(o) = rest.as_object_mut() {
						o.remove("min_amount");
						o.remove("max_amount");
					}
					let q_rest = Self::to_query(&rest);
					for t in &mine {
						let signed = t.amount_credited as i128 - t.amount_debited as i128;
						if signed >= 0 || matches(t, &q_rest) != Tri::Yes {
							continue;
						}
						let ok = |x: i128| {
							q.min_amount.map(|v| x >= v as i128).unwrap_or(true)
								&& q.max_amount.map(|v| x <= v as i128).unwrap_or(true)
						};
						let (s_ok, m_ok) = (ok(signed), ok(-signed));
						if s_ok == m_ok {
							continue;
						}
						let included = got_ids.contains(&t.id);
						let reading = if included == m_ok { "total" } else { "signed" };
						run.cov.probe(&format!("amount_bounds_discriminate_readings:{:?}", t.tx_type));
						self.amount_readings.insert(reading.to_owned(), format!("{:?} entry {} of query {}", t.tx_type, t.id, args["q"]));
					}
					if self.amount_readings.len() > 1 {
						v.push(run.viol(
							"filter_exact",
							"amount_criteria_read_differently_for_different_entries",
							format!("wallet {}: the amount bounds were applied as {:?}", w, self.amount_readings),
						));
						return v;
					}
				}
				// order
				let field = q.sort_field.clone().unwrap_or(RetrieveTxQuerySortField::Id);
				let desc = matches!(q.sort_order, Some(RetrieveTxQuerySortOrder::Desc));
				let keys: Vec<Option<i128>> = got_ids
					.iter()
					.map(|id| mine.iter().find(|t| t.id == *id).and_then(|t| sort_key(t, &field)))
					.collect();
				for i in 1..keys.len() {
					if let (Some(a), Some(bk)) = (keys[i - 1], keys[i]) {
						if (!desc && a > bk) || (desc && a < bk) {
							v.push(run.viol(
								"sorted",
								"wrong_order",
								format!(
									"wallet {}: query {} returned ids {:?} out of order (keys {:?})",
									w, args["q"], got_ids, keys
								),
							));
							return v;
						}
					}
				}
				// truncation keeps the first ones: no required, missing entry sorts strictly
				// before every returned one
				if cut && !got_ids.is_empty() {
					let present: Vec<i128> = keys.iter().flatten().cloned().collect();
					if present.len() == keys.len() {
						let edge = if desc {
							*present.iter().min().unwrap()
						} else {
							*present.iter().max().unwrap()
						};
						for (id, vd) in &verdicts {
							if *vd == Tri::Yes && !got_ids.contains(id) {
								if let Some(k) = mine.iter().find(|t| t.id == *id).and_then(|t| sort_key(t, &field)) {
									if (!desc && k < edge) || (desc && k > edge) {
										v.push(run.viol(
											"limit",
											"truncation_dropped_earlier_entry",
											format!(
												"wallet {}: query {} (limit) returned {:?} but matching entry {} sorts before the last returned one",
												w, args["q"], got_ids, id
											),
										));
										return v;
									}
								}
							}
						}
					}
				}
			}
		}
		if self.queries == 6 {
			let s = sample_trace(run, 30);
			run.cov.sample(json!({"query": args, "returned": got_ids, "history": s}));
		}
		let _ = Duration::seconds(0);
		v
	}
}
