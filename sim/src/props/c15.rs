//! C15 — no key derivation path is ever used for two outputs.

use crate::gen::{GenCfg, HistGen};
use crate::hooks;
use crate::ops::{Exec, Op, OpRes, Step, StepOut};
use crate::run::{sample_trace, Prop, Run, Violation};
use grin_core::core::OutputFeatures;
use grin_keychain::Identifier;
use grin_util::ToHex;
use serde_json::{json, Value};
use std::collections::{BTreeMap, BTreeSet};

#[derive(Clone, Debug)]
struct Use {
	commit: String,
	value: u64,
	is_coinbase: bool,
	last_status: String,
	step: usize,
	what: String,
}

pub struct C15 {
	gen: HistGen,
	/// (wallet, key id) -> every distinct output ever written under it
	uses: BTreeMap<(usize, String), Vec<Use>>,
	restored: BTreeSet<usize>,
	pending_refresh: Vec<usize>,
	/// wallets replaced by a restore from their seed (two live wallets on one
	/// seed are outside the statement)
	retired: BTreeSet<usize>,
}

impl C15 {
	pub fn new(run: &mut Run) -> C15 {
		let mut cfg = GenCfg::swarm(run);
		cfg.boundary_args = false;
		cfg.extra_accounts = 1 + run.rng.below(2) as usize;
		cfg.allow_multi_acct_args = true;
		cfg.w_account = 2 + run.rng.below(3) as u32;
		cfg.w_restart = 1 + run.rng.below(3) as u32;
		cfg.w_new_invoice += 3;
		cfg.w_mine += 4;
		cfg.w_scan = run.rng.below(2) as u32;
		if !run.rng.chance(1, 4) {
			cfg.p_fault = 8 + run.rng.below(20);
			cfg.fault_kinds = vec!["crash", "crash", "fail"];
		}
		let gen = HistGen::new(cfg, run);
		C15 {
			gen,
			uses: BTreeMap::new(),
			restored: BTreeSet::new(),
			pending_refresh: vec![],
			retired: BTreeSet::new(),
		}
	}

	fn record(
		&mut self,
		run: &mut Run,
		w: usize,
		key_id: &str,
		commit: Option<String>,
		value: u64,
		is_coinbase: bool,
		status: &str,
		what: &str,
		named_key: Option<&str>,
	) -> Option<Violation> {
		let commit = commit.unwrap_or_else(|| format!("value:{}", value));
		let stepno = run.trace.len().saturating_sub(1);
		// a coinbase built for a request that names no key is a new assignment: its
		// path must never have been used, not even for an equal commitment
		let fresh_assignment = what == "mine" && is_coinbase && status == "Unconfirmed" && named_key.is_none();
		let e = self.uses.entry((w, key_id.to_owned())).or_default();
		if let Some(u) = e.iter_mut().find(|u| u.commit == commit) {
			if fresh_assignment {
				let (pw, ps) = (u.what.clone(), u.step);
				return Some(run.viol(
					"unique_paths",
					"path_reused:mine:same_commitment",
					format!(
						"wallet {}: key path {} was assigned to a coinbase ({} at step {}) and assigned again to a new coinbase with the same value",
						w, key_id, pw, ps
					),
				));
			}
			u.last_status = status.to_owned();
			return None;
		}
		let prev = e.last().cloned();
		e.push(Use {
			commit: commit.clone(),
			value,
			is_coinbase,
			last_status: status.to_owned(),
			step: stepno,
			what: what.to_owned(),
		});
		if let Some(p) = prev {
			// the one exception: a coinbase re-request naming the still-unconfirmed candidate
			if named_key == Some(key_id) && is_coinbase && p.is_coinbase && p.last_status == "Unconfirmed" {
				run.cov.probe("coinbase_candidate_replaced");
				return None;
			}
			return Some(run.viol(
				"unique_paths",
				&format!("path_reused:{}", what),
				format!(
					"wallet {}: key path {} was used for output {} ({} nanogrin, {} at step {}) and now for a different output {} ({} nanogrin, {})",
					w, key_id, p.commit, p.value, p.what, p.step, commit, value, what
				),
			));
		}
		None
	}
}

impl Prop for C15 {
	fn id(&self) -> &'static str {
		"C15"
	}

	fn custom(&mut self, ex: &mut Exec, name: &str, a: &Value) -> OpRes {
		if name != "build_output" && name != "cb_rerequest" {
			return OpRes::Skipped("unknown".into());
		}
		let w = a["w"].as_u64().unwrap_or(0) as usize;
		if w >= ex.world.wallets.len() || !ex.world.is_open(w) {
			return OpRes::Skipped("unavailable".into());
		}
		if name == "cb_rerequest" {
			// a mining node asks again for a coinbase and names the key of an output the
			// wallet already holds (any output: only an unconfirmed coinbase candidate
			// may be replaced under its key)
			let snap = ex.world.snap(w);
			if snap.outputs.is_empty() {
				return OpRes::Skipped("no outputs".into());
			}
			let o = &snap.outputs[(a["pick"].as_u64().unwrap_or(0) as usize) % snap.outputs.len()];
			let bf = grin_wallet_libwallet::BlockFees {
				fees: a["fees"].as_u64().unwrap_or(0),
				height: ex.world.chain.height() + 1,
				key_id: Some(o.key_id.clone()),
			};
			return match ex.world.foreign(w).build_coinbase(&bf) {
				Ok(cb) => OpRes::Ok {
					new_msg: None,
					note: format!(
						"{}|{}|{}|{}",
						o.key_id.to_hex(),
						cb.key_id.map(|k| k.to_hex()).unwrap_or_default(),
						o.is_coinbase,
						o.status
					),
					validated: None,
					new_wallet: None,
				},
				Err(e) => OpRes::Err(format!("{}", e)),
			};
		}
		let amount = a["amount"].as_u64().unwrap_or(1);
		match ex
			.world
			.owner(w)
			.build_output(ex.world.mask(w).as_ref(), OutputFeatures::Plain, amount)
		{
			Ok(b) => OpRes::Ok {
				new_msg: None,
				note: format!("{}|{}|{}", b.key_id.to_hex(), b.output.commitment().as_ref().to_hex(), amount),
				validated: None,
				new_wallet: None,
			},
			Err(e) => OpRes::Err(format!("{}", e)),
		}
	}

	fn next(&mut self, run: &mut Run) -> Option<Step> {
		if let Some(w) = self.pending_refresh.pop() {
			return Some(Step::new(Op::Refresh { w }));
		}
		if self.gen.setup_done {
			let nw = run.ex.world.wallets.len();
			if run.rng.chance(1, 25) && nw > 0 {
				let w = run.rng.idx(nw);
				if !self.retired.contains(&w) {
					return Some(Step::new(Op::Custom {
						name: "cb_rerequest".into(),
						args: json!({"w": w, "pick": run.rng.below(1000), "fees": run.rng.below(3) * 1_000_000}),
					}));
				}
			}
			if run.rng.chance(1, 14) && nw > 0 {
				let mut st = Step::new(Op::Custom {
					name: "build_output".into(),
					args: json!({"w": run.rng.idx(nw), "amount": run.rng.range(1, 1_000_000_000)}),
				});
				if run.rng.chance(1, 4) {
					st = self.gen.decorate(run, st);
				}
				return Some(st);
			}
			if run.rng.chance(1, 30) && nw > 0 && nw < 5 && run.ex.world.chain.height() > 4 {
				let src = run.rng.idx(nw);
				if !self.restored.contains(&src) && !self.retired.contains(&src) {
					return Some(Step::new(Op::Restore { src }));
				}
			}
		}
		for _ in 0..20 {
			let st = self.gen.next(run)?;
			let involves_retired = match &st.op {
				Op::Mine { w: Some(w), .. } => self.retired.contains(w),
				_ => st.wallet().map(|w| self.retired.contains(&w)).unwrap_or(false),
			};
			if !involves_retired {
				return Some(st);
			}
		}
		Some(Step::new(Op::Mine {
			w: None,
			n: 1,
			txs: true,
		}))
	}

	fn after(&mut self, run: &mut Run, step: &Step, out: &StepOut) -> Vec<Violation> {
		let mut v = vec![];
		self.gen.feedback(run, step, out);
		// attribute every committed output record to the acting wallet
		let saves = hooks::take_committed_saves();
		let w = match &step.op {
			Op::CreateWallet { .. } | Op::Restore { .. } => out.new_wallet,
			_ => step.wallet(),
		};
		if let Op::Restore { src } = &step.op {
			if out.new_wallet.is_some() {
				self.retired.insert(*src);
			}
			if let Some(nw) = out.new_wallet {
				self.restored.insert(nw);
				self.pending_refresh.push(nw);
				while self.gen.labels.len() <= nw {
					self.gen.labels.push(vec!["default".to_owned()]);
				}
			}
		}
		// a coinbase re-request names a key (custom op cb_rerequest)
		let named: Option<String> = match &step.op {
			Op::Custom { name, .. } if name == "cb_rerequest" && out.ok => out.note.split('|').next().map(|x| x.to_owned()),
			_ => None,
		};
		if let Some(w) = w {
			// a wallet restored from the same seed legitimately re-finds the same paths:
			// its records are compared within itself only
			for s in saves {
				// records restored by a scan carry their MMR index: the wallet did not
				// assign those paths (the next-path check below covers them)
				if s.mmr_index.is_some() {
					run.cov.probe("record_restored_by_scan");
					continue;
				}
				run.cov.case(
					&format!("{}|{}|{}|{}", step.kind(), s.is_coinbase, s.status, out.crashed),
					true,
				);
				if let Some(x) = self.record(
					run,
					w,
					&s.key_id,
					s.commit.clone(),
					s.value,
					s.is_coinbase,
					&s.status,
					step.kind(),
					named.as_deref(),
				) {
					v.push(x);
					return v;
				}
			}
			if let Op::Custom { name, .. } = &step.op {
				if name == "build_output" && out.ok {
					let parts: Vec<&str> = out.note.split('|').collect();
					if parts.len() == 3 {
						run.cov.probe("built_output");
						if let Some(x) = self.record(
							run,
							w,
							parts[0],
							Some(parts[1].to_owned()),
							parts[2].parse().unwrap_or(0),
							false,
							"Built",
							"build_output",
							None,
						) {
							v.push(x);
							return v;
						}
					}
				}
			}
		}
		if out.crashed {
			run.cov.probe("crash_during_output_creating_history");
		}
		// after a scan/refresh of a restored wallet the next path handed out lies
		// beyond every path found on chain
		let scanned = match &step.op {
			Op::Refresh { w } if out.ok && out.validated == Some(true) && self.restored.contains(w) => Some(*w),
			Op::Scan { w, .. } if out.ok => Some(*w),
			_ => None,
		};
		if let Some(w) = scanned {
			if run.ex.world.is_open(w) {
				let snap = run.ex.world.snap(w);
				let truth = run.ex.world.truth(w);
				// a scan told to start at a height looks at the blocks from there on: paths
				// of outputs in earlier blocks it was told to skip (and does not hold a
				// record of) are not "found on chain" by this wallet
				let from = match &step.op {
					Op::Scan { start, .. } => start.unwrap_or(0),
					_ => 0,
				};
				let mut max_on_chain: BTreeMap<String, u32> = BTreeMap::new();
				for t in &truth {
					if t.height < from && !snap.outputs.iter().any(|o| o.key_id == t.key_id) {
						run.cov.not_judged("path_below_the_start_height_of_a_partial_scan");
						continue;
					}
					let n = t.key_id.to_path().last_path_index();
					let e = max_on_chain.entry(t.acct.to_hex()).or_insert(0);
					if n >= *e {
						*e = n;
					}
				}
				for (acct, max_n) in &max_on_chain {
					run.cov.case(&format!("restore_next_path|{}", self.restored.contains(&w)), true);
					let next = snap.child_idx.get(acct).cloned();
					match next {
						Some(n) if n > *max_n => {}
						other => {
							let path = Identifier::from_hex(acct).map(|i| i.to_bip_32_string()).unwrap_or_default();
							v.push(run.viol(
								"restore_beyond_chain",
								"next_path_not_beyond_chain",
								format!(
									"wallet {}: after scan, account {} would hand out child index {:?} but an output with index {} is on chain",
									w, path, other, max_n
								),
							));
							return v;
						}
					}
				}
			}
		}
		if run.trace.len() == 18 {
			let s = sample_trace(run, 18);
			run.cov.sample(s);
		}
		v
	}
}
