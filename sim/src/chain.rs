//! Real `grin_chain::Chain` under simulator control (`ChainCtl`) and the
//! `SimNodeClient` (the wallet's `NodeClient` trait) with an outage / fault plan.

use grin_chain as chain;
use grin_chain::types::NoopAdapter;
use grin_chain::Chain;
use grin_core::consensus;
use grin_core::core::hash::{Hash, Hashed};
use grin_core::core::transaction::Weighting;
use grin_core::core::{Block, BlockHeader, Output, Transaction, TxKernel};
use grin_core::global::{self, ChainTypes};
use grin_core::libtx::{proof::ProofBuilder, reward};
use grin_core::pow;
use grin_keychain::{ExtKeychain, Identifier, Keychain};
use grin_util::secp::pedersen;
use grin_util::ToHex;
use grin_wallet_libwallet as libwallet;
use grin_wallet_libwallet::{NodeClient, NodeVersionInfo};
use std::collections::{BTreeMap, HashMap};
use std::sync::{Arc, Mutex};

#[derive(Clone, Debug, Default)]
pub struct NodeFaultState {
	/// node unreachable for every call
	pub down: bool,
	/// calls made during the current operation (reset by `begin_op`)
	pub calls_in_op: u32,
	/// fail the k-th call (1-based) of the current operation ...
	pub fail_at: Option<u32>,
	/// ... and every later one too (node went away) if true
	pub fail_from: bool,
	/// post_tx: accept the tx but report an error (reply lost)
	pub post_reply_lost: bool,
	pub calls_total: u64,
	pub calls_failed: u64,
	pub call_log: Vec<String>,
}

pub struct NodeShared {
	pub chain: Mutex<Option<Arc<Chain>>>,
	pub mempool: Mutex<Vec<Transaction>>,
	pub fault: Mutex<NodeFaultState>,
	/// every tx ever accepted by post_tx (kernel excess hex -> tx)
	pub posted: Mutex<Vec<Transaction>>,
	pub sched: Mutex<Option<Arc<dyn Fn(&str) + Send + Sync>>>,
}

#[derive(Clone)]
pub struct SimNodeClient {
	pub sh: Arc<NodeShared>,
}

fn cb_err(s: &str) -> libwallet::Error {
	libwallet::Error::ClientCallback(s.to_owned())
}

impl SimNodeClient {
	fn chain(&self) -> Arc<Chain> {
		self.sh.chain.lock().unwrap().as_ref().unwrap().clone()
	}
	/// One node call: may be failed by the fault plan.
	fn gate(&self, what: &str) -> Result<(), libwallet::Error> {
		// scheduling point for node calls made outside wallet-lock scopes (C20)
		let cb = self.sh.sched.lock().unwrap().clone();
		if let Some(cb) = cb {
			cb(what);
		}
		let mut f = self.sh.fault.lock().unwrap();
		f.calls_in_op += 1;
		f.calls_total += 1;
		let n = f.calls_in_op;
		if f.call_log.len() < 64 {
			f.call_log.push(what.to_owned());
		}
		let mut fail = f.down;
		if let Some(k) = f.fail_at {
			if n == k || (f.fail_from && n > k) {
				fail = true;
			}
		}
		if fail {
			f.calls_failed += 1;
			return Err(cb_err(&format!("simulated node failure in {}", what)));
		}
		Ok(())
	}
}

impl NodeClient for SimNodeClient {
	fn node_url(&self) -> &str {
		"sim-node"
	}
	fn node_api_secret(&self) -> Option<String> {
		None
	}
	fn set_node_url(&mut self, _node_url: &str) {}
	fn set_node_api_secret(&mut self, _node_api_secret: Option<String>) {}
	fn get_version_info(&mut self) -> Option<NodeVersionInfo> {
		None
	}

	fn post_tx(&self, tx: &Transaction, _fluff: bool) -> Result<(), libwallet::Error> {
		self.gate("post_tx")?;
		let chain = self.chain();
		// what a node's transaction pool does: validate the tx on its own,
		// then against the current UTXO set, then against the pool
		tx.validate(Weighting::AsTransaction)
			.map_err(|e| cb_err(&format!("post_tx: invalid tx: {}", e)))?;
		chain
			.validate_tx(tx)
			.map_err(|e| cb_err(&format!("post_tx: rejected against utxo: {}", e)))?;
		chain
			.verify_coinbase_maturity(&tx.inputs())
			.map_err(|e| cb_err(&format!("post_tx: immature coinbase: {}", e)))?;
		chain
			.verify_tx_lock_height(tx)
			.map_err(|e| cb_err(&format!("post_tx: lock height: {}", e)))?;
		{
			let mut pool = self.sh.mempool.lock().unwrap();
			let my_inputs: Vec<pedersen::Commitment> = commits_in(tx);
			for p in pool.iter() {
				if p.kernels()[0].excess == tx.kernels()[0].excess {
					return Err(cb_err("post_tx: duplicate tx in pool"));
				}
				for c in commits_in(p) {
					if my_inputs.contains(&c) {
						return Err(cb_err("post_tx: input already spent in pool"));
					}
				}
			}
			pool.push(tx.clone());
			self.sh.posted.lock().unwrap().push(tx.clone());
		}
		let lost = self.sh.fault.lock().unwrap().post_reply_lost;
		if lost {
			return Err(cb_err("post_tx: reply lost"));
		}
		Ok(())
	}

	fn get_chain_tip(&self) -> Result<(u64, String), libwallet::Error> {
		self.gate("get_chain_tip")?;
		let h = self.chain().head().map_err(|e| cb_err(&format!("{}", e)))?;
		Ok((h.height, h.last_block_h.to_hex()))
	}

	fn get_kernel(
		&mut self,
		excess: &pedersen::Commitment,
		min_height: Option<u64>,
		max_height: Option<u64>,
	) -> Result<Option<(TxKernel, u64, u64)>, libwallet::Error> {
		self.gate("get_kernel")?;
		// the HTTP client passes heights through; 0 means "none" on the wire
		let min = match min_height {
			Some(0) => None,
			m => m,
		};
		let max = match max_height {
			Some(0) => None,
			m => m,
		};
		self.chain()
			.get_kernel_height(excess, min, max)
			.map_err(|e| cb_err(&format!("get_kernel: {}", e)))
	}

	fn get_outputs_from_node(
		&self,
		wallet_outputs: Vec<pedersen::Commitment>,
	) -> Result<HashMap<pedersen::Commitment, (String, u64, u64)>, libwallet::Error> {
		self.gate("get_outputs_from_node")?;
		let chain = self.chain();
		let mut res = HashMap::new();
		for c in wallet_outputs {
			if let Ok(Some((_, pos))) = chain.get_unspent(c) {
				res.insert(c, (c.as_ref().to_hex(), pos.height, pos.pos));
			}
		}
		Ok(res)
	}

	fn get_outputs_by_pmmr_index(
		&self,
		start_index: u64,
		end_index: Option<u64>,
		max_outputs: u64,
	) -> Result<
		(
			u64,
			u64,
			Vec<(pedersen::Commitment, pedersen::RangeProof, bool, u64, u64)>,
		),
		libwallet::Error,
	> {
		self.gate("get_outputs_by_pmmr_index")?;
		let chain = self.chain();
		let start_index = std::cmp::max(start_index, 1);
		let (last_retrieved, highest, outs) = chain
			.unspent_outputs_by_pmmr_index(start_index, max_outputs, end_index)
			.map_err(|e| cb_err(&format!("{}", e)))?;
		let mut v = vec![];
		for o in outs {
			let pos = chain
				.get_unspent(o.commitment())
				.map_err(|e| cb_err(&format!("{}", e)))?;
			let (height, mmr) = match pos {
				Some((_, p)) => (p.height, p.pos),
				None => continue,
			};
			v.push((o.commitment(), o.proof, o.is_coinbase(), height, mmr));
		}
		Ok((highest, last_retrieved, v))
	}

	fn height_range_to_pmmr_indices(
		&self,
		start_height: u64,
		end_height: Option<u64>,
	) -> Result<(u64, u64), libwallet::Error> {
		self.gate("height_range_to_pmmr_indices")?;
		let end = match end_height {
			Some(0) => None,
			e => e,
		};
		self.chain()
			.block_height_range_to_pmmr_indices(start_height, end)
			.map_err(|e| cb_err(&format!("{}", e)))
	}
}

pub fn commits_in(tx: &Transaction) -> Vec<pedersen::Commitment> {
	let v: Vec<grin_core::core::transaction::CommitWrapper> = tx.inputs().into();
	v.iter().map(|i| i.commitment()).collect()
}

#[derive(Clone, Debug)]
pub struct BlockRec {
	pub height: u64,
	pub hash: Hash,
	pub prev: Hash,
	pub kernels: Vec<pedersen::Commitment>,
	pub coinbase_commit: pedersen::Commitment,
	/// wallet index that was paid, or None for the simulator's miner
	pub paid_to: Option<usize>,
}

pub struct ChainCtl {
	pub dir: String,
	pub chain: Arc<Chain>,
	pub node: SimNodeClient,
	pub miner_kc: ExtKeychain,
	pub miner_next: u32,
	pub blocks: Vec<BlockRec>,
	pub blocks_mined: u64,
	pub forks: u64,
}

impl ChainCtl {
	pub fn new(dir: &str, miner_seed: &[u8]) -> ChainCtl {
		global::set_local_chain_type(ChainTypes::AutomatedTesting);
		global::set_global_chain_type(ChainTypes::AutomatedTesting);
		let genesis = pow::mine_genesis_block().unwrap();
		let chain = Arc::new(
			Chain::init(
				format!("{}/.grin", dir),
				Arc::new(NoopAdapter {}),
				genesis,
				pow::verify_size,
				false,
			)
			.unwrap(),
		);
		let sh = Arc::new(NodeShared {
			chain: Mutex::new(Some(chain.clone())),
			mempool: Mutex::new(vec![]),
			fault: Mutex::new(NodeFaultState::default()),
			posted: Mutex::new(vec![]),
			sched: Mutex::new(None),
		});
		ChainCtl {
			dir: dir.to_owned(),
			chain,
			node: SimNodeClient { sh },
			miner_kc: ExtKeychain::from_seed(miner_seed, false).unwrap(),
			miner_next: 0,
			blocks: vec![],
			blocks_mined: 0,
			forks: 0,
		}
	}

	pub fn height(&self) -> u64 {
		self.chain.head().unwrap().height
	}
	pub fn head_header(&self) -> BlockHeader {
		self.chain.head_header().unwrap()
	}
	pub fn header_at(&self, h: u64) -> Option<BlockHeader> {
		self.chain.get_header_by_height(h).ok()
	}

	pub fn begin_op(&self, fail_at: Option<u32>, fail_from: bool) {
		let mut f = self.node.sh.fault.lock().unwrap();
		f.calls_in_op = 0;
		f.fail_at = fail_at;
		f.fail_from = fail_from;
		f.call_log.clear();
	}
	pub fn end_op(&self) -> (u32, Vec<String>) {
		let mut f = self.node.sh.fault.lock().unwrap();
		f.fail_at = None;
		f.fail_from = false;
		(f.calls_in_op, f.call_log.clone())
	}
	pub fn set_down(&self, d: bool) {
		self.node.sh.fault.lock().unwrap().down = d;
	}
	pub fn is_down(&self) -> bool {
		self.node.sh.fault.lock().unwrap().down
	}
	pub fn set_post_reply_lost(&self, d: bool) {
		self.node.sh.fault.lock().unwrap().post_reply_lost = d;
	}

	/// reward for the simulator's own miner key
	pub fn miner_reward(&mut self, fees: u64) -> (Output, TxKernel) {
		let id = ExtKeychain::derive_key_id(3, 9, 9, self.miner_next, 0);
		self.miner_next += 1;
		reward::output(
			&self.miner_kc,
			&ProofBuilder::new(&self.miner_kc),
			&id,
			fees,
			false,
		)
		.unwrap()
	}

	/// Choose a consistent subset of the mempool that is valid on top of `prev`
	/// (when prev is the head). Invalid / conflicting ones stay in the pool.
	pub fn select_txs(&self, max: usize) -> Vec<Transaction> {
		let pool = self.node.sh.mempool.lock().unwrap().clone();
		let mut sel: Vec<Transaction> = vec![];
		let mut used: Vec<pedersen::Commitment> = vec![];
		// stay under the block weight limit (the coinbase output and kernel included)
		let limit = global::max_block_weight();
		let mut weight: u64 = 21 + 3;
		for tx in pool {
			if sel.len() >= max {
				break;
			}
			if weight + tx.weight() > limit {
				continue;
			}
			if self.chain.validate_tx(&tx).is_err()
				|| self.chain.verify_coinbase_maturity(&tx.inputs()).is_err()
			{
				continue;
			}
			let ins = commits_in(&tx);
			if ins.iter().any(|c| used.contains(c)) {
				continue;
			}
			used.extend(ins);
			weight += tx.weight();
			sel.push(tx);
		}
		sel
	}

	/// Remove from the pool what is no longer valid against the head
	/// (mined, or double-spent by a mined tx)
	pub fn prune_mempool(&self) {
		let mut pool = self.node.sh.mempool.lock().unwrap();
		let chain = &self.chain;
		pool.retain(|tx| {
			let on_chain = chain
				.get_kernel_height(&tx.kernels()[0].excess, None, None)
				.ok()
				.flatten()
				.is_some();
			!on_chain && chain.validate_tx(tx).is_ok()
		});
	}

	pub fn mempool_len(&self) -> usize {
		self.node.sh.mempool.lock().unwrap().len()
	}

	/// Build a block on `prev` and feed it to the chain.
	pub fn add_block(
		&mut self,
		prev: &BlockHeader,
		txs: &[Transaction],
		reward: (Output, TxKernel),
		paid_to: Option<usize>,
	) -> Result<BlockRec, String> {
		let diff_iter = chain::store::DifficultyIter::from(prev.hash(), self.chain.store());
		let next_header_info = consensus::next_difficulty(prev.height + 1, diff_iter);
		let cb_commit = reward.0.commitment();
		let mut b = Block::new(prev, txs, next_header_info.clone().difficulty, reward)
			.map_err(|e| format!("Block::new: {:?}", e))?;
		b.header.timestamp = prev.timestamp + chrono::Duration::seconds(60);
		b.header.pow.secondary_scaling = next_header_info.secondary_scaling;
		self.chain
			.set_txhashset_roots(&mut b)
			.map_err(|e| format!("set_txhashset_roots: {}", e))?;
		pow::pow_size(
			&mut b.header,
			next_header_info.difficulty,
			global::proofsize(),
			global::min_edge_bits(),
		)
		.map_err(|e| format!("pow: {:?}", e))?;
		let rec = BlockRec {
			height: b.header.height,
			hash: b.header.hash(),
			prev: prev.hash(),
			kernels: b.kernels().iter().map(|k| k.excess).collect(),
			coinbase_commit: cb_commit,
			paid_to,
		};
		self.chain
			.process_block(b, chain::Options::MINE)
			.map_err(|e| format!("process_block: {}", e))?;
		self.blocks_mined += 1;
		self.blocks.push(rec.clone());
		self.prune_mempool();
		Ok(rec)
	}

	/// Mine one block on the head paying the simulator's miner.
	pub fn mine_to_miner(&mut self, with_txs: bool) -> Result<BlockRec, String> {
		let txs = if with_txs { self.select_txs(8) } else { vec![] };
		let fees = txs.iter().map(|t| t.fee()).sum();
		let r = self.miner_reward(fees);
		let prev = self.head_header();
		self.add_block(&prev, &txs, r, None)
	}

	/// Replace the top `depth` blocks by a fork of `depth + extra` blocks mined to
	/// the simulator's miner. Transactions whose kernels sat in the orphaned
	/// blocks go back to the mempool when `readd` (and they are still valid);
	/// `include` decides whether the fork blocks include mempool txs.
	pub fn fork(
		&mut self,
		depth: u64,
		extra: u64,
		include: bool,
		readd: bool,
	) -> Result<(u64, Vec<Hash>), String> {
		let head = self.head_header();
		if depth == 0 || depth > head.height {
			return Err("bad fork depth".into());
		}
		let base_h = head.height - depth;
		let base = self
			.chain
			.get_header_by_height(base_h)
			.map_err(|e| format!("{}", e))?;
		// collect txs of the blocks that will be orphaned
		let mut orphan_txs: Vec<Transaction> = vec![];
		let mut orphan_hashes = vec![];
		for h in (base_h + 1)..=head.height {
			let hdr = self
				.chain
				.get_header_by_height(h)
				.map_err(|e| format!("{}", e))?;
			orphan_hashes.push(hdr.hash());
			if let Ok(b) = self.chain.get_block(&hdr.hash()) {
				let posted = self.node.sh.posted.lock().unwrap().clone();
				for k in b.kernels() {
					for t in posted.iter() {
						if t.kernels()[0].excess == k.excess {
							orphan_txs.push(t.clone());
						}
					}
				}
			}
		}
		let mut prev = base;
		for i in 0..(depth + extra) {
			// only once the fork has become the head can we validate txs against it
			let is_head = self.head_header().hash() == prev.hash();
			let txs = if include && is_head {
				self.select_txs(8)
			} else {
				vec![]
			};
			let fees = txs.iter().map(|t| t.fee()).sum();
			let r = self.miner_reward(fees);
			let rec = self.add_block(&prev, &txs, r, None)?;
			prev = self
				.chain
				.get_block_header(&rec.hash)
				.map_err(|e| format!("{}", e))?;
			let _ = i;
		}
		if self.head_header().hash() != prev.hash() {
			return Err("fork did not become head".into());
		}
		self.forks += 1;
		if readd {
			let mut pool = self.node.sh.mempool.lock().unwrap();
			for t in orphan_txs {
				if !pool
					.iter()
					.any(|p| p.kernels()[0].excess == t.kernels()[0].excess)
				{
					pool.push(t);
				}
			}
		}
		self.prune_mempool();
		Ok((base_h, orphan_hashes))
	}

	/// is a kernel on the current chain?
	pub fn kernel_height(&self, excess: &pedersen::Commitment) -> Option<u64> {
		self.chain
			.get_kernel_height(excess, None, None)
			.ok()
			.flatten()
			.map(|(_, h, _)| h)
	}

	pub fn is_unspent(&self, c: &pedersen::Commitment) -> Option<(u64, u64)> {
		match self.chain.get_unspent(*c) {
			Ok(Some((_, p))) => Some((p.height, p.pos)),
			_ => None,
		}
	}

	/// All unspent outputs of the chain (commit, proof, is_coinbase, height, mmr pos)
	pub fn utxos(&self) -> Vec<(pedersen::Commitment, pedersen::RangeProof, bool, u64, u64)> {
		let mut res = vec![];
		let mut start = 1u64;
		loop {
			let (last, highest, outs) =
				match self.chain.unspent_outputs_by_pmmr_index(start, 1000, None) {
					Ok(x) => x,
					Err(_) => break,
				};
			for o in outs {
				if let Ok(Some((_, p))) = self.chain.get_unspent(o.commitment()) {
					res.push((o.commitment(), o.proof, o.is_coinbase(), p.height, p.pos));
				}
			}
			if highest <= last {
				break;
			}
			start = last + 1;
		}
		res
	}

	pub fn close(&mut self) {
		*self.node.sh.chain.lock().unwrap() = None;
	}
}

/// Mine one block on the current head from outside `ChainCtl` (used by node-event
/// tasks that run as threads under the scheduler): reward to a throw-away key.
pub fn mine_standalone(chain: &Arc<Chain>, sh: &Arc<NodeShared>, kc: &ExtKeychain, key_index: u32, with_txs: bool) -> Result<u64, String> {
	let prev = chain.head_header().map_err(|e| format!("{}", e))?;
	let mut txs: Vec<Transaction> = vec![];
	if with_txs {
		let pool = sh.mempool.lock().unwrap().clone();
		let mut used: Vec<pedersen::Commitment> = vec![];
		for tx in pool {
			if chain.validate_tx(&tx).is_err() || chain.verify_coinbase_maturity(&tx.inputs()).is_err() {
				continue;
			}
			let ins = commits_in(&tx);
			if ins.iter().any(|c| used.contains(c)) {
				continue;
			}
			used.extend(ins);
			txs.push(tx);
		}
	}
	let fees = txs.iter().map(|t| t.fee()).sum();
	let id = ExtKeychain::derive_key_id(3, 8, 8, key_index, 0);
	let reward = reward::output(kc, &ProofBuilder::new(kc), &id, fees, false).map_err(|e| format!("{:?}", e))?;
	let diff_iter = chain::store::DifficultyIter::from(prev.hash(), chain.store());
	let next_header_info = consensus::next_difficulty(prev.height + 1, diff_iter);
	let mut b = Block::new(&prev, &txs, next_header_info.clone().difficulty, reward).map_err(|e| format!("{:?}", e))?;
	b.header.timestamp = prev.timestamp + chrono::Duration::seconds(60);
	b.header.pow.secondary_scaling = next_header_info.secondary_scaling;
	chain.set_txhashset_roots(&mut b).map_err(|e| format!("{}", e))?;
	pow::pow_size(&mut b.header, next_header_info.difficulty, global::proofsize(), global::min_edge_bits()).map_err(|e| format!("{:?}", e))?;
	let h = b.header.height;
	chain.process_block(b, chain::Options::MINE).map_err(|e| format!("{}", e))?;
	// drop what is mined or no longer valid from the pool
	let mut pool = sh.mempool.lock().unwrap();
	pool.retain(|tx| {
		let on_chain = chain.get_kernel_height(&tx.kernels()[0].excess, None, None).ok().flatten().is_some();
		!on_chain && chain.validate_tx(tx).is_ok()
	});
	Ok(h)
}

#[allow(dead_code)]
pub fn ident_hex(i: &Identifier) -> String {
	i.to_hex()
}

#[allow(dead_code)]
pub type KernelMap = BTreeMap<String, u64>;
