//! Seeded PRNG for every simulator choice (xoshiro256** seeded via splitmix64).
//! Nothing here reads a clock or OS entropy.

pub fn splitmix(x: &mut u64) -> u64 {
	*x = x.wrapping_add(0x9E37_79B9_7F4A_7C15);
	let mut z = *x;
	z = (z ^ (z >> 30)).wrapping_mul(0xBF58_476D_1CE4_E5B9);
	z = (z ^ (z >> 27)).wrapping_mul(0x94D0_49BB_1331_11EB);
	z ^ (z >> 31)
}

/// mix several integers into one seed
pub fn mix(parts: &[u64]) -> u64 {
	let mut s = 0x1234_5678_9abc_def0u64;
	for p in parts {
		s ^= *p;
		let _ = splitmix(&mut s);
		s = s.rotate_left(17) ^ splitmix(&mut s.clone());
	}
	splitmix(&mut s)
}

pub fn hash_str(s: &str) -> u64 {
	let mut h = 0xcbf2_9ce4_8422_2325u64;
	for b in s.bytes() {
		h ^= b as u64;
		h = h.wrapping_mul(0x1000_0000_01b3);
	}
	h
}

pub fn hash_bytes(s: &[u8]) -> u64 {
	let mut h = 0xcbf2_9ce4_8422_2325u64;
	for b in s {
		h ^= *b as u64;
		h = h.wrapping_mul(0x1000_0000_01b3);
	}
	h
}

#[derive(Clone, Debug)]
pub struct SimRng {
	s: [u64; 4],
	pub draws: u64,
}

impl SimRng {
	pub fn new(seed: u64) -> SimRng {
		let mut x = seed;
		let s = [
			splitmix(&mut x),
			splitmix(&mut x),
			splitmix(&mut x),
			splitmix(&mut x),
		];
		SimRng { s, draws: 0 }
	}
	pub fn next_u64(&mut self) -> u64 {
		self.draws += 1;
		let result = self.s[1].wrapping_mul(5).rotate_left(7).wrapping_mul(9);
		let t = self.s[1] << 17;
		self.s[2] ^= self.s[0];
		self.s[3] ^= self.s[1];
		self.s[1] ^= self.s[2];
		self.s[0] ^= self.s[3];
		self.s[2] ^= t;
		self.s[3] = self.s[3].rotate_left(45);
		result
	}
	/// uniform in 0..n (n>0)
	pub fn below(&mut self, n: u64) -> u64 {
		if n == 0 {
			return 0;
		}
		self.next_u64() % n
	}
	pub fn range(&mut self, lo: u64, hi_incl: u64) -> u64 {
		if hi_incl <= lo {
			return lo;
		}
		lo + self.below(hi_incl - lo + 1)
	}
	pub fn chance(&mut self, num: u64, den: u64) -> bool {
		self.below(den) < num
	}
	pub fn pick<'a, T>(&mut self, v: &'a [T]) -> &'a T {
		let i = self.below(v.len() as u64) as usize;
		&v[i]
	}
	pub fn idx(&mut self, len: usize) -> usize {
		self.below(len as u64) as usize
	}
	/// weighted choice: returns index
	pub fn weighted(&mut self, w: &[u32]) -> usize {
		let total: u64 = w.iter().map(|x| *x as u64).sum();
		if total == 0 {
			return 0;
		}
		let mut r = self.below(total);
		for (i, x) in w.iter().enumerate() {
			if r < *x as u64 {
				return i;
			}
			r -= *x as u64;
		}
		w.len() - 1
	}
	pub fn bytes(&mut self, n: usize) -> Vec<u8> {
		let mut v = Vec::with_capacity(n);
		while v.len() < n {
			let x = self.next_u64().to_le_bytes();
			for b in x.iter() {
				if v.len() < n {
					v.push(*b);
				}
			}
		}
		v
	}
	pub fn fork(&mut self) -> SimRng {
		SimRng::new(self.next_u64())
	}
}
