//! The simulator's implementation of `libwallet::verif::Hooks`:
//! virtual clock, fault points (pass / fail / crash / truncate+crash),
//! tuning knobs, committed-save observer, and the baton scheduler entry points.

use chrono::{DateTime, Duration as CDuration, TimeZone, Utc};
use grin_wallet_libwallet::verif::{self, Event, Hooks};
use serde_derive::{Deserialize, Serialize};
use std::collections::BTreeMap;
use std::path::Path;
use std::sync::{Arc, Mutex};
use std::time::Duration;

/// Payload used to unwind out of a wallet call at a fault point ("process death")
pub struct CrashSignal;

#[derive(Clone, Debug, Serialize, Deserialize, PartialEq)]
pub enum FaultKind {
	/// the point returns an injected error, process lives
	Fail,
	/// the process dies here
	Crash,
	/// the file just written is cut to `n` bytes, then the process dies
	TruncCrash(u64),
}

#[derive(Clone, Debug, Serialize, Deserialize, PartialEq)]
pub struct Fault {
	/// point name, e.g. "lmdb.commit.post"
	pub point: String,
	/// which visit (1-based) of that name inside the operation
	pub nth: u32,
	pub kind: FaultKind,
}

#[derive(Clone, Debug, Default)]
pub struct SavedOutput {
	pub key_id: String,
	pub mmr_index: Option<u64>,
	pub value: u64,
	pub is_coinbase: bool,
	pub status: String,
	pub commit: Option<String>,
}

#[derive(Default)]
pub struct HookState {
	pub now_ms: i64,
	/// simulated time that passed (forward moves of the clock only)
	pub elapsed_ms: i64,
	pub fault: Option<Fault>,
	pub fault_fired: bool,
	/// visits per point name inside the current operation
	pub visits: BTreeMap<String, u32>,
	/// ordered list of visited points in the current operation ("name#n")
	pub visited: Vec<String>,
	pub visited_files: BTreeMap<String, u64>,
	pub knobs: BTreeMap<String, u64>,
	pub pending_saves: Vec<SavedOutput>,
	pub committed_saves: Vec<SavedOutput>,
	pub pending_deletes: Vec<(String, Option<u64>)>,
	pub committed_deletes: Vec<(String, Option<u64>)>,
	pub commits: u64,
	pub lock_scopes: u64,
	pub sleeps: u64,
	pub fired_counts: BTreeMap<String, u64>,
}

pub struct SimHooks {
	pub st: Mutex<HookState>,
	pub sched: Mutex<Option<Arc<dyn SchedHooks>>>,
}

/// Scheduler interface (C20 only)
pub trait SchedHooks: Send + Sync {
	fn enter(&self);
	fn exit(&self);
	fn sleep(&self, d: Duration);
}

lazy_static::lazy_static! {
	pub static ref HOOKS: Arc<SimHooks> = Arc::new(SimHooks {
		st: Mutex::new(HookState::default()),
		sched: Mutex::new(None),
	});
}

pub fn install() {
	{
		let mut st = HOOKS.st.lock().unwrap();
		// 2021-06-01T00:00:00Z
		st.now_ms = 1_622_505_600_000;
	}
	verif::install(Some(HOOKS.clone() as Arc<dyn Hooks>));
}

pub fn set_sched(s: Option<Arc<dyn SchedHooks>>) {
	*HOOKS.sched.lock().unwrap() = s;
}

pub fn now_ms() -> i64 {
	HOOKS.st.lock().unwrap().now_ms
}
pub fn set_now_ms(v: i64) {
	HOOKS.st.lock().unwrap().now_ms = v;
}
pub fn advance_ms(d: i64) {
	let mut st = HOOKS.st.lock().unwrap();
	st.now_ms += d;
	if d > 0 {
		st.elapsed_ms += d;
	}
}
pub fn elapsed_ms() -> i64 {
	HOOKS.st.lock().unwrap().elapsed_ms
}
pub fn now_dt() -> DateTime<Utc> {
	let ms = now_ms();
	Utc.timestamp_opt(ms.div_euclid(1000), (ms.rem_euclid(1000) * 1_000_000) as u32)
		.single()
		.unwrap_or_else(|| Utc.timestamp_opt(0, 0).unwrap())
}

pub fn set_knob(name: &str, v: u64) {
	HOOKS.st.lock().unwrap().knobs.insert(name.to_owned(), v);
}

/// Begin an operation: clear per-op counters and arm an optional fault.
pub fn begin_op(fault: Option<Fault>) {
	let mut st = HOOKS.st.lock().unwrap();
	st.fault = fault;
	st.fault_fired = false;
	st.visits.clear();
	st.visited.clear();
	st.visited_files.clear();
	st.pending_saves.clear();
	st.pending_deletes.clear();
}

/// End an operation: returns (visited points, whether the armed fault fired)
pub fn end_op() -> (Vec<String>, bool) {
	let mut st = HOOKS.st.lock().unwrap();
	st.fault = None;
	st.pending_saves.clear();
	st.pending_deletes.clear();
	(st.visited.clone(), st.fault_fired)
}

pub fn visited_files() -> BTreeMap<String, u64> {
	HOOKS.st.lock().unwrap().visited_files.clone()
}

pub fn take_committed_saves() -> Vec<SavedOutput> {
	let mut st = HOOKS.st.lock().unwrap();
	std::mem::replace(&mut st.committed_saves, vec![])
}

pub fn stats() -> (u64, u64, u64, BTreeMap<String, u64>) {
	let st = HOOKS.st.lock().unwrap();
	(st.commits, st.lock_scopes, st.sleeps, st.fired_counts.clone())
}

impl Hooks for SimHooks {
	fn point(&self, name: &str, path: Option<&Path>) -> Result<(), String> {
		let action = {
			let mut st = self.st.lock().unwrap();
			let n = {
				let e = st.visits.entry(name.to_owned()).or_insert(0);
				*e += 1;
				*e
			};
			let tag = format!("{}#{}", name, n);
			st.visited.push(tag.clone());
			if let Some(p) = path {
				let len = std::fs::metadata(p).map(|m| m.len()).unwrap_or(0);
				st.visited_files.insert(tag, len);
			}
			match st.fault.clone() {
				Some(f) if f.point == name && f.nth == n && !st.fault_fired => {
					st.fault_fired = true;
					let k = match f.kind {
						FaultKind::Fail => "fail",
						FaultKind::Crash => "crash",
						FaultKind::TruncCrash(_) => "trunc_crash",
					};
					*st.fired_counts.entry(k.to_owned()).or_insert(0) += 1;
					Some(f.kind)
				}
				_ => None,
			}
		};
		match action {
			None => Ok(()),
			Some(FaultKind::Fail) => Err(format!("injected I/O failure at {}", name)),
			Some(FaultKind::Crash) => {
				std::panic::resume_unwind(Box::new(CrashSignal));
			}
			Some(FaultKind::TruncCrash(n)) => {
				if let Some(p) = path {
					if let Ok(f) = std::fs::OpenOptions::new().write(true).open(p) {
						let _ = f.set_len(n);
					}
				}
				std::panic::resume_unwind(Box::new(CrashSignal));
			}
		}
	}

	fn lock_scope_enter(&self) {
		{
			let mut st = self.st.lock().unwrap();
			st.lock_scopes += 1;
		}
		let s = self.sched.lock().unwrap().clone();
		if let Some(s) = s {
			s.enter();
		}
	}

	fn lock_scope_exit(&self) {
		let s = self.sched.lock().unwrap().clone();
		if let Some(s) = s {
			s.exit();
		}
	}

	fn now(&self) -> Option<DateTime<Utc>> {
		Some(now_dt())
	}

	fn sleep(&self, d: Duration) -> bool {
		{
			let mut st = self.st.lock().unwrap();
			st.sleeps += 1;
		}
		let s = self.sched.lock().unwrap().clone();
		match s {
			Some(s) => {
				s.sleep(d);
			}
			None => {
				// single-threaded mode: sleeping just advances the virtual clock
				advance_ms(d.as_millis() as i64);
			}
		}
		true
	}

	fn knob(&self, name: &str, default: u64) -> u64 {
		let st = self.st.lock().unwrap();
		*st.knobs.get(name).unwrap_or(&default)
	}

	fn observe(&self, ev: Event) {
		let mut st = self.st.lock().unwrap();
		match ev {
			Event::BatchOpened => {
				st.pending_saves.clear();
				st.pending_deletes.clear();
			}
			Event::OutputSaved {
				key_id,
				mmr_index,
				value,
				is_coinbase,
				status,
				commit,
			} => st.pending_saves.push(SavedOutput {
				key_id,
				mmr_index,
				value,
				is_coinbase,
				status,
				commit,
			}),
			Event::OutputDeleted { key_id, mmr_index } => {
				st.pending_deletes.push((key_id, mmr_index))
			}
			Event::BatchCommitted => {
				st.commits += 1;
				let p = std::mem::replace(&mut st.pending_saves, vec![]);
				st.committed_saves.extend(p);
				let d = std::mem::replace(&mut st.pending_deletes, vec![]);
				st.committed_deletes.extend(d);
			}
		}
	}
}

#[allow(dead_code)]
pub fn dur(ms: i64) -> CDuration {
	CDuration::milliseconds(ms)
}
