//! gwsim — deterministic simulation with fault injection for grin-wallet.
//!
//!   gwsim run      --prop Cxx --seed N [--tier quick|thorough] [--out F] [--journal F] [-v]
//!   gwsim replay   FILE [--out F] [-v]
//!   gwsim batch    --prop Cxx --tier T --seed N [--jobs 16] [--budget-s S] [--runs N]
//!   gwsim selftest determinism --prop Cxx [--n N] [--seed N]
//!
//! Exit codes: 0 held, 1 violation, 2 harness error.

mod alloc;
mod chain;
mod driver;
mod entropy;
mod gen;
mod hooks;
mod model;
mod mutate;
mod ops;
mod props;
mod rng;
mod rpc;
mod run;
mod sched;
mod world;

use run::{ReplayFile, Run, RunResult};

#[global_allocator]
static GLOBAL: alloc::Counting = alloc::Counting;
use std::collections::BTreeMap;

pub fn verif_root() -> String {
	std::env::var("VERIF_ROOT").unwrap_or_else(|_| "/verif".to_owned())
}

pub fn scratch_root() -> String {
	if std::path::Path::new("/dev/shm").is_dir() {
		"/dev/shm".to_owned()
	} else {
		std::env::var("TMPDIR").unwrap_or_else(|_| "/tmp".to_owned())
	}
}

pub struct Args {
	pub pos: Vec<String>,
	pub kv: BTreeMap<String, String>,
	pub flags: Vec<String>,
}

pub fn parse_args(a: &[String]) -> Args {
	let mut pos = vec![];
	let mut kv = BTreeMap::new();
	let mut flags = vec![];
	let mut i = 0;
	while i < a.len() {
		let s = &a[i];
		if s == "-v" || s == "--verbose" {
			flags.push("verbose".to_owned());
		} else if s.starts_with("--") {
			let k = s[2..].to_owned();
			if i + 1 < a.len() && !a[i + 1].starts_with("--") {
				kv.insert(k, a[i + 1].clone());
				i += 1;
			} else {
				flags.push(k);
			}
		} else {
			pos.push(s.clone());
		}
		i += 1;
	}
	Args { pos, kv, flags }
}

fn init_process(seed: u64, verbose: bool) {
	ops::install_panic_hook(verbose);
	// real-time hang detection per step, far above a step's normal time even on a
	// loaded machine: decodes and single wallet calls take milliseconds, a C20 / C06 /
	// C12 step holds a whole enumeration (dozens of executions from one snapshot)
	alloc::start_watchdog(match std::env::var("GWSIM_PROP").ok().as_deref() {
		Some("C20") | Some("C06") | Some("C12") => 1500,
		_ => 300,
	});
	entropy::enable(seed);
	hooks::install();
}

fn write_out(path: Option<&String>, res: &RunResult) {
	let js = serde_json::to_string(res).unwrap();
	match path {
		Some(p) => {
			let _ = std::fs::write(p, js);
		}
		None => println!("RESULT {}", js),
	}
}

fn cmd_run(a: &Args) -> i32 {
	let prop_id = a.kv.get("prop").cloned().unwrap_or_default();
	let seed: u64 = a.kv.get("seed").and_then(|s| s.parse().ok()).unwrap_or(1);
	let thorough = a.kv.get("tier").map(|t| t == "thorough").unwrap_or(false);
	let verbose = a.flags.contains(&"verbose".to_owned());
	std::env::set_var("GWSIM_PROP", &prop_id);
	init_process(seed, verbose);
	let dir = format!("{}/gwsim-{}-{}", scratch_root(), std::process::id(), seed);
	let mut run = Run::new(&prop_id, seed, thorough, &dir);
	run.verbose = verbose;
	if let Some(j) = a.kv.get("journal") {
		run.journal = std::fs::File::create(j).ok();
	}
	let mut prop = match props::make(&prop_id, &mut run) {
		Some(p) => p,
		None => {
			eprintln!("unknown property {}", prop_id);
			return 2;
		}
	};
	let (_, max_steps) = props::budget(&prop_id, thorough);
	let (viol, aborted) = run::generate(prop.as_mut(), &mut run, max_steps);
	let res = RunResult {
		property: prop_id.clone(),
		seed,
		steps: run.trace.len(),
		violations: viol.clone(),
		cov: run.cov.clone(),
		trace_hash: run.trace_hash(),
		aborted,
		known_hits: run.known_hits.clone(),
	};
	if let Some(v) = viol.first() {
		let rf = ReplayFile {
			property: prop_id.clone(),
			oracle: v.oracle.clone(),
			signature: v.signature.clone(),
			detail: v.detail.clone(),
			seed,
			tier: if thorough { "thorough".into() } else { "quick".into() },
			knobs: run.knobs.clone(),
			trace: run.trace.clone(),
		};
		if let Some(p) = a.kv.get("replay-out") {
			let _ = std::fs::write(p, serde_json::to_string_pretty(&rf).unwrap());
		}
		if verbose {
			eprintln!("VIOLATION {} {} : {}", v.oracle, v.signature, v.detail);
		}
	}
	write_out(a.kv.get("out"), &res);
	run.ex.world.close_all();
	drop(prop);
	drop(run);
	let _ = std::fs::remove_dir_all(&dir);
	if viol.is_empty() {
		0
	} else {
		1
	}
}

fn cmd_replay(a: &Args) -> i32 {
	let file = match a.pos.get(1) {
		Some(f) => f.clone(),
		None => {
			eprintln!("usage: gwsim replay FILE");
			return 2;
		}
	};
	let verbose = a.flags.contains(&"verbose".to_owned());
	let txt = match std::fs::read_to_string(&file) {
		Ok(t) => t,
		Err(e) => {
			eprintln!("cannot read {}: {}", file, e);
			return 2;
		}
	};
	let rf: ReplayFile = match serde_json::from_str(&txt) {
		Ok(r) => r,
		Err(e) => {
			eprintln!("cannot parse {}: {}", file, e);
			return 2;
		}
	};
	std::env::set_var("GWSIM_PROP", &rf.property);
	init_process(rf.seed, verbose);
	let dir = format!("{}/gwsim-{}-r{}", scratch_root(), std::process::id(), rf.seed);
	let mut run = Run::new(&rf.property, rf.seed, rf.tier == "thorough", &dir);
	run.verbose = verbose;
	let mut prop = match props::make_for_replay(&rf.property, &mut run) {
		Some(p) => p,
		None => return 2,
	};
	for (k, v) in &rf.knobs {
		run.set_knob(k, *v);
	}
	let (viol, aborted) = run::replay(prop.as_mut(), &mut run, &rf.trace);
	let res = RunResult {
		property: rf.property.clone(),
		seed: rf.seed,
		steps: run.trace.len(),
		violations: viol.clone(),
		cov: run.cov.clone(),
		trace_hash: run.trace_hash(),
		aborted,
		known_hits: run.known_hits.clone(),
	};
	write_out(a.kv.get("out"), &res);
	let same = viol
		.iter()
		.any(|v| v.oracle == rf.oracle && v.signature == rf.signature);
	if a.flags.contains(&"dump".to_owned()) {
		for w in 0..run.ex.world.wallets.len() {
			if run.ex.world.is_open(w) {
				eprintln!("--- wallet {} ---", w);
				for l in run.ex.world.snap(w).full_proj() {
					eprintln!("{}", l);
				}
			}
		}
		for (i, d) in run.model.deals.iter().enumerate() {
			eprintln!(
				"deal {} {:?} init={} payer={:?} payee={:?} amt={} fee={:?} locked={} replied={} fin={} posted={} mined={:?} cancelled={:?} inputs={:?} change={:?}",
				i, d.kind, d.initiator, d.payer, d.payee, d.amount, d.fee, d.locked, d.replied, d.finalized, d.posted, d.mined, d.cancelled_by, d.inputs, d.change
			);
		}
	}
	if a.kv.get("out").is_none() {
		match viol.first() {
			Some(v) => println!(
				"REPLAY property={} oracle={} signature={} reproduced={} detail={}",
				rf.property, v.oracle, v.signature, same, v.detail
			),
			None => println!("REPLAY property={} no violation", rf.property),
		}
	}
	run.ex.world.close_all();
	drop(prop);
	drop(run);
	let _ = std::fs::remove_dir_all(&dir);
	if viol.is_empty() {
		0
	} else {
		1
	}
}

fn main() {
	let argv: Vec<String> = std::env::args().collect();
	let a = parse_args(&argv[1..]);
	let code = match a.pos.get(0).map(|s| s.as_str()) {
		Some("run") => cmd_run(&a),
		Some("replay") => cmd_replay(&a),
		Some("batch") => driver::cmd_batch(&a),
		Some("shrink") => driver::cmd_shrink(&a),
		Some("selftest") => driver::cmd_selftest(&a),
		_ => {
			eprintln!("usage: gwsim run|replay|batch|shrink|selftest ...");
			2
		}
	};
	std::process::exit(code);
}
