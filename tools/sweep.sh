#!/bin/bash
# sweep.sh <tier> <seed>... : run every claimed check at the given seeds against /repo, summarise alarms
# (zero-alarm validation; uses its own VERIF_ROOT so evidence/replays stay in the calling directory)
TIER="$1"; shift
ROOT="$(cd "$(dirname "${BASH_SOURCE[0]}")/.." && pwd)"
export VERIF_ROOT="$ROOT"
cd "$ROOT/sim" && cargo build --release --offline >/dev/null 2>&1 || { echo build failed; exit 2; }
for SEED in "$@"; do
  for P in ${SWEEP_PROPS:-C01 C02 C03 C04 C05 C06 C07 C09 C10 C11 C12 C13 C14 C15 C16 C17 C18 C19 C20}; do
    OUT=$("$ROOT/sim/target/release/gwsim" batch --prop $P --tier $TIER --seed $SEED ${SWEEP_ARGS:-} 2>&1)
    RC=$?
    echo "seed=$SEED $P rc=$RC $(echo "$OUT" | grep 'gwsim batch' | cut -c1-160)"
    echo "$OUT" | grep -E "^VIOLATION|^  oracle|HARNESS" | cut -c1-500
  done
done
