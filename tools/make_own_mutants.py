#!/usr/bin/env python3
"""Write simple hand-made property-breaking changes as patch files under
/verif/seeded/own/<name>.diff (plus index.json: name -> property, note).

These complement the sub-agent seeded changes: they are the obvious deletions the
property texts themselves name (a dropped validate(), a dropped check_fees(), `>=` to
`>` in check_ttl, ...). They are NOT required to pass the existing test suite (some do
not); they answer "is the oracle awake at all". Run with a scratch worktree of /repo:

    git -C /repo worktree add /tmp/wt-own HEAD
    python3 tools/make_own_mutants.py /tmp/wt-own
    git -C /repo worktree remove --force /tmp/wt-own
"""
import json, os, subprocess, sys

WT = sys.argv[1]
OUT = "/verif/seeded/own"
os.makedirs(OUT, exist_ok=True)

M = []


def mut(name, prop, path, old, new, note, count=1, more=()):
    M.append(dict(name=name, prop=prop, path=path, old=old, new=new, note=note, count=count, more=more))


mut("c02_no_validate", "C02", "libwallet/src/slate.rs",
    """		if let Err(e) = final_tx.validate(Weighting::AsTransaction) {
			error!("Error with final tx validation: {}", e);
			Err(e.into())
		} else {""",
    """		if false {
			Err(Error::SlateState)
		} else {""",
    "finalize_transaction no longer validates the final transaction")

mut("c02_no_kernel_verify", "C02", "libwallet/src/slate.rs",
    """		final_tx.kernels()[0].verify()?;

		// confirm the overall transaction is valid (including the updated kernel)
		// accounting for tx weight limits
		if let Err(e) = final_tx.validate(Weighting::AsTransaction) {
			error!("Error with final tx validation: {}", e);
			Err(e.into())
		} else {""",
    """		if false {
			Err(Error::SlateState)
		} else {""",
    "neither the kernel signature nor the transaction is verified at finalization")

mut("c02_no_check_fees", "C02", "libwallet/src/slate.rs",
    """		self.check_fees()?;
		// build the final excess based on final tx and offset""",
    """		// build the final excess based on final tx and offset""",
    "finalize_transaction no longer checks the fee")

mut("c03_no_lock_guard", "C03", "libwallet/src/internal/selection.rs",
    """			if coin.status == OutputStatus::Locked
				|| coin.status == OutputStatus::Spent
				|| coin.status == OutputStatus::Reverted
			{""",
    """			if coin.status == OutputStatus::Spent {""",
    "lock_tx_context reserves outputs that are already Locked / Reverted")

mut("c05_cancel_keeps_change", "C05", "libwallet/src/internal/updater.rs",
    """		if o.status == OutputStatus::Unconfirmed || o.status == OutputStatus::Reverted {
			batch.delete(&o.key_id, &o.mmr_index)?;
		}""",
    """		if o.status == OutputStatus::Reverted {
			batch.delete(&o.key_id, &o.mmr_index)?;
		}""",
    "cancel_tx_and_outputs leaves the unconfirmed change output behind")

mut("c17_ttl_boundary", "C17", "libwallet/src/api_impl/owner.rs",
    "		if last_confirmed_height >= slate.ttl_cutoff_height {",
    "		if last_confirmed_height > slate.ttl_cutoff_height {",
    "check_ttl accepts a slate exactly at its cutoff height")

mut("c18_never_reverted", "C18", "libwallet/src/internal/updater.rs",
    """							output.mark_reverted();
						} else {""",
    """							output.mark_spent();
						} else {""",
    "a re-organised-away incoming output is marked Spent instead of Reverted")

mut("c12_nonce_unmasked", "C12", "impls/src/backends/lmdb.rs",
    """			s_ctx.sec_key.0[i] ^= blind_xor_key[i];
			s_ctx.sec_nonce.0[i] ^= nonce_xor_key[i];
		}

		self.db
			.borrow()
			.as_ref()
			.unwrap()
			.put_ser(&ctx_key, &s_ctx)?;""",
    """			s_ctx.sec_key.0[i] ^= blind_xor_key[i];
			let _ = nonce_xor_key[i];
		}

		self.db
			.borrow()
			.as_ref()
			.unwrap()
			.put_ser(&ctx_key, &s_ctx)?;""",
    "the secret nonce of a pending transaction is stored (and read back) without its mask",
    more=[("impls/src/backends/lmdb.rs",
           "			ctx.sec_nonce.0[i] ^= nonce_xor_key[i];\n", "			let _ = nonce_xor_key[i];\n")])

mut("c07_no_duplicate_check", "C07", "libwallet/src/api_impl/foreign.rs",
    """		if t.tx_type == TxLogEntryType::TxReceived {
			return Err(Error::TransactionAlreadyReceived(ret_slate.id.to_string()));""",
    """		if t.tx_type == TxLogEntryType::TxReceived && t.confirmed {
			return Err(Error::TransactionAlreadyReceived(ret_slate.id.to_string()));""",
    "a second delivery of a slate is refused only once the first receive has confirmed")

mut("c10_checksum_3_bytes", "C10", "libwallet/src/slatepack/armor.rs",
    "	if error_code.iter().eq(new_check.iter()) {",
    "	if error_code.iter().take(3).eq(new_check.iter().take(3)) {",
    "the armor checksum comparison looks at 3 of its 4 bytes")

mut("c04_immature_spendable", "C04", "libwallet/src/internal/updater.rs",
    "				if out.is_coinbase && out.lock_height > current_height {",
    "				if out.is_coinbase && out.lock_height > current_height + 1 {",
    "retrieve_info counts a coinbase as spendable one block before it matures")

mut("c11_no_sig_check", "C11", "libwallet/src/internal/tx.rs",
    """		if p.receiver_address.verify(&msg, &sig).is_err() {
			return Err(Error::PaymentProof("Invalid proof signature".to_owned()));
		};
	}
	Ok(())
}""",
    """		let _ = (msg, sig);
	}
	Ok(())
}""",
    "verify_slate_payment_proof does not verify the recipient's signature")

mut("c10_checksum_1_byte", "C10", "libwallet/src/slatepack/armor.rs",
    "	if error_code.iter().eq(new_check.iter()) {",
    "	if error_code.iter().take(1).eq(new_check.iter().take(1)) {",
    "the armor checksum comparison looks at 1 of its 4 bytes (the 3-byte variant is not observable by sampling: 2^-24)")

mut("c13_plaintext_after_init", "C13", "controller/src/controller.rs",
    """			let res = OwnerV3Helpers::decrypt_request(key.clone(), &val);
			match res {
				Err(e) => return Ok(e),""",
    """			let res = OwnerV3Helpers::decrypt_request(key.clone(), &val);
			match res {
				Err(_) if !OwnerV3Helpers::is_encrypted_request(&val) => {}
				Err(e) => return Ok(e),""",
    "once a session key exists, a request that is not an encrypted envelope is passed on in plaintext")

mut("c14_mask_checksum_skipped_for_none", "C14", "impls/src/backends/lmdb.rs",
    """				if *self.master_checksum != Some(hasher.finalize()) {""",
    """				if mask.is_some() && *self.master_checksum != Some(hasher.finalize()) {""",
    "a missing token is not checked against the master checksum (operations run with the still-masked keychain)")

mut("c15_child_index_not_bumped_on_first", "C15", "impls/src/backends/lmdb.rs",
    """		deriv_idx += 1;
		let mut batch = self.batch(keychain_mask)?;
		batch.save_child_index(&parent_key_id, deriv_idx)?;
		batch.commit()?;""",
    """		deriv_idx += 1;
		if deriv_idx > 1 {
			let mut batch = self.batch(keychain_mask)?;
			batch.save_child_index(&parent_key_id, deriv_idx)?;
			batch.commit()?;
		}""",
    "the first child index of an account is handed out without being recorded")

mut("c16_coinbase_lock_height", "C16", "libwallet/src/internal/scan.rs",
    """			*height + global::coinbase_maturity()""",
    """			*height + global::coinbase_maturity() - 1""",
    "restored coinbases mature one block early")

mut("c19_outstanding_only_inverted_for_false", "C19", "libwallet/src/internal/updater.rs",
    """				if let Some(v) = query_args.include_outstanding_only {
					if v {
						!tx_entry.confirmed
					} else {
						true
					}""",
    """				if let Some(v) = query_args.include_outstanding_only {
					if v {
						!tx_entry.confirmed
					} else {
						tx_entry.confirmed
					}""",
    "include_outstanding_only = Some(false) filters out outstanding entries instead of not filtering")

mut("c01_min_conf_off_by_one", "C01", "libwallet/src/types.rs",
    """				&& self.num_confirmations(current_height) >= minimum_confirmations)""",
    """				&& self.num_confirmations(current_height) + 1 >= minimum_confirmations)""",
    "an output with one confirmation too few is eligible")

mut("c06_stored_tx_unwrap", "C06", "libwallet/src/internal/tx.rs",
    "PLACEHOLDER_NOT_PRESENT", "x", "placeholder (skipped)")

ok = []
for m in M:
    p = os.path.join(WT, m["path"])
    s = open(p).read()
    if s.count(m["old"]) != m["count"]:
        print("SKIP", m["name"], "pattern count", s.count(m["old"]))
        continue
    open(p, "w").write(s.replace(m["old"], m["new"]))
    for (p2, o2, n2) in m["more"]:
        p2 = os.path.join(WT, p2)
        s2 = open(p2).read()
        assert s2.count(o2) == 1, (m["name"], "more")
        open(p2, "w").write(s2.replace(o2, n2))
    d = subprocess.run(["git", "-C", WT, "diff"], capture_output=True, text=True).stdout
    open(os.path.join(OUT, m["name"] + ".diff"), "w").write(d)
    subprocess.run(["git", "-C", WT, "checkout", "--", "."], check=True)
    ok.append(dict(name=m["name"], property=m["prop"], note=m["note"]))
json.dump(ok, open(os.path.join(OUT, "index.json"), "w"), indent=1)
print("wrote", len(ok), "mutants")
