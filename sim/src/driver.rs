//! Batch driver: many seeded runs in child processes, known-findings handling,
//! minimisation, evidence, determinism self-test.

use crate::run::{Cov, ReplayFile, RunResult};
use crate::{scratch_root, verif_root, Args};
use serde_derive::{Deserialize, Serialize};
use serde_json::json;
use std::collections::{BTreeMap, BTreeSet};
use std::process::{Child, Command, Stdio};
use std::time::{Duration, Instant};

#[derive(Clone, Debug, Serialize, Deserialize)]
pub struct KnownFinding {
	pub property: String,
	pub signature: String,
	pub what: String,
	pub status: String,
	#[serde(default)]
	pub commit: Option<String>,
	/// the run may go on after this finding fired (no derived damage)
	#[serde(default, rename = "continue")]
	pub cont: bool,
}

pub fn load_known() -> Vec<KnownFinding> {
	let p = format!("{}/known_findings.json", verif_root());
	match std::fs::read_to_string(&p) {
		Ok(t) => serde_json::from_str(&t).unwrap_or_default(),
		Err(_) => vec![],
	}
}

fn exe() -> std::path::PathBuf {
	std::env::current_exe().unwrap()
}

pub fn run_seed(prop: &str, idx: u64, base: u64) -> u64 {
	crate::rng::mix(&[base, crate::rng::hash_str(prop), idx])
}

struct Job {
	child: Child,
	seed: u64,
	out: String,
	journal: String,
	replay: String,
	started: Instant,
}

fn spawn_run(prop: &str, seed: u64, tier: &str, tmp: &str) -> Job {
	let out = format!("{}/{}.out.json", tmp, seed);
	let journal = format!("{}/{}.journal", tmp, seed);
	let replay = format!("{}/{}.replay.json", tmp, seed);
	let child = Command::new(exe())
		.args(&[
			"run",
			"--prop",
			prop,
			"--seed",
			&seed.to_string(),
			"--tier",
			tier,
			"--out",
			&out,
			"--journal",
			&journal,
			"--replay-out",
			&replay,
		])
		.stdout(Stdio::null())
		.stderr(Stdio::null())
		.spawn()
		.expect("spawn child");
	Job {
		child,
		seed,
		out,
		journal,
		replay,
		started: Instant::now(),
	}
}

/// Run a replay file in a fresh process; returns the RunResult
pub fn run_replay_file(path: &str, tmp: &str, tag: &str, timeout: Duration) -> Option<RunResult> {
	let out = format!("{}/replay-{}.out.json", tmp, tag);
	let _ = std::fs::remove_file(&out);
	let mut child = Command::new(exe())
		.args(&["replay", path, "--out", &out])
		.stdout(Stdio::null())
		.stderr(Stdio::null())
		.spawn()
		.ok()?;
	let st = Instant::now();
	loop {
		match child.try_wait() {
			Ok(Some(_)) => break,
			Ok(None) => {
				if st.elapsed() > timeout {
					let _ = child.kill();
					let _ = child.wait();
					return None;
				}
				std::thread::sleep(Duration::from_millis(5));
			}
			Err(_) => return None,
		}
	}
	let t = std::fs::read_to_string(&out).ok()?;
	serde_json::from_str(&t).ok()
}

fn reproduces(res: &Option<RunResult>, oracle: &str, sig: &str) -> bool {
	match res {
		Some(r) => r
			.violations
			.iter()
			.any(|v| v.oracle == oracle && v.signature == sig),
		None => false,
	}
}

/// Delta-debugging over the step list, candidates evaluated 16 at a time.
pub fn minimise(rf: &ReplayFile, tmp: &str, budget: Duration, jobs: usize) -> ReplayFile {
	let start = Instant::now();
	let mut cur = rf.clone();
	let mut chunk = std::cmp::max(1, cur.trace.len() / 2);
	let mut round = 0;
	loop {
		if start.elapsed() > budget {
			break;
		}
		let n = cur.trace.len();
		if n <= 1 {
			break;
		}
		// candidates: remove [i, i+chunk)
		let mut cands: Vec<(usize, usize)> = vec![];
		let mut i = 0;
		while i < n {
			let j = std::cmp::min(n, i + chunk);
			cands.push((i, j));
			i += chunk;
		}
		// try from the end (later steps are usually less load-bearing)
		cands.reverse();
		let mut success: Option<(usize, usize)> = None;
		for group in cands.chunks(jobs) {
			if start.elapsed() > budget {
				break;
			}
			let mut handles = vec![];
			for (k, (a, b)) in group.iter().enumerate() {
				let mut c = cur.clone();
				c.trace.drain(*a..*b);
				let path = format!("{}/min-{}-{}.json", tmp, round, k);
				let _ = std::fs::write(&path, serde_json::to_string(&c).unwrap());
				let tmp2 = tmp.to_owned();
				let tag = format!("m{}-{}", round, k);
				let oracle = cur.oracle.clone();
				let sig = cur.signature.clone();
				let ab = (*a, *b);
				handles.push(std::thread::spawn(move || {
					let r = run_replay_file(&path, &tmp2, &tag, Duration::from_secs(600));
					(ab, reproduces(&r, &oracle, &sig))
				}));
			}
			for h in handles {
				if let Ok((ab, ok)) = h.join() {
					if ok && success.is_none() {
						success = Some(ab);
					}
				}
			}
			round += 1;
			if success.is_some() {
				break;
			}
		}
		match success {
			Some((a, b)) => {
				cur.trace.drain(a..b);
				chunk = std::cmp::max(1, std::cmp::min(chunk, cur.trace.len() / 2));
			}
			None => {
				if chunk == 1 {
					break;
				}
				chunk = std::cmp::max(1, chunk / 2);
			}
		}
	}
	// drop fault / node-fail decorations that are not needed
	for i in 0..cur.trace.len() {
		if start.elapsed() > budget {
			break;
		}
		if cur.trace[i].fault.is_some() || cur.trace[i].node_fail.is_some() {
			let mut c = cur.clone();
			c.trace[i].fault = None;
			c.trace[i].node_fail = None;
			let path = format!("{}/min-f-{}.json", tmp, i);
			let _ = std::fs::write(&path, serde_json::to_string(&c).unwrap());
			let r = run_replay_file(&path, tmp, &format!("f{}", i), Duration::from_secs(600));
			if reproduces(&r, &cur.oracle, &cur.signature) {
				cur = c;
			}
		}
	}
	cur
}

fn sweep_scratch() {
	// remove scratch dirs of dead processes
	if let Ok(rd) = std::fs::read_dir(scratch_root()) {
		for e in rd.flatten() {
			let name = e.file_name().to_string_lossy().to_string();
			if let Some(rest) = name.strip_prefix("gwsim-") {
				let pid: Option<u32> = rest.split('-').next().and_then(|p| p.parse().ok());
				if let Some(pid) = pid {
					if !std::path::Path::new(&format!("/proc/{}", pid)).exists() {
						let _ = std::fs::remove_dir_all(e.path());
					}
				}
			}
		}
	}
}

pub fn cmd_batch(a: &Args) -> i32 {
	let prop = match a.kv.get("prop") {
		Some(p) => p.clone(),
		None => return 2,
	};
	let tier = a.kv.get("tier").cloned().unwrap_or_else(|| "quick".into());
	let thorough = tier == "thorough";
	let base_seed: u64 = a
		.kv
		.get("seed")
		.and_then(|s| s.parse().ok())
		.or_else(|| std::env::var("VERIF_SEED").ok().and_then(|s| s.parse().ok()))
		.unwrap_or(1);
	let jobs: usize = a.kv.get("jobs").and_then(|s| s.parse().ok()).unwrap_or(16);
	let (def_runs, _) = crate::props::budget(&prop, thorough);
	let runs: u64 = a.kv.get("runs").and_then(|s| s.parse().ok()).unwrap_or(def_runs);
	let budget_s: u64 = a
		.kv
		.get("budget-s")
		.and_then(|s| s.parse().ok())
		.or_else(|| std::env::var("VERIF_BUDGET_S").ok().and_then(|s| s.parse().ok()))
		.unwrap_or(if thorough { 1500 } else { 150 });
	let start = Instant::now();
	sweep_scratch();
	let tmp = format!("{}/gwsim-{}-batch", scratch_root(), std::process::id());
	let _ = std::fs::remove_dir_all(&tmp);
	std::fs::create_dir_all(&tmp).unwrap();
	let known = load_known();

	let mut cov = Cov::default();
	let mut results: Vec<RunResult> = vec![];
	let mut launched = 0u64;
	let mut running: Vec<Job> = vec![];
	let mut failures: Vec<(u64, ReplayFile)> = vec![];
	let mut abnormal: Vec<(u64, String)> = vec![];
	let mut aborted: BTreeMap<String, u64> = BTreeMap::new();
	let run_timeout = Duration::from_secs(if thorough { 1800 } else { 900 });
	let mut hashes: Vec<(u64, String)> = vec![];
	let mut known_cont_hits: BTreeMap<String, u64> = BTreeMap::new();
	loop {
		while running.len() < jobs
			&& launched < runs
			&& start.elapsed() < Duration::from_secs(budget_s)
		{
			let seed = run_seed(&prop, launched, base_seed);
			running.push(spawn_run(&prop, seed, &tier, &tmp));
			launched += 1;
		}
		if running.is_empty() {
			break;
		}
		let mut i = 0;
		let mut progressed = false;
		while i < running.len() {
			let done = match running[i].child.try_wait() {
				Ok(Some(st)) => Some(st.code()),
				Ok(None) => {
					if running[i].started.elapsed() > run_timeout {
						let _ = running[i].child.kill();
						let _ = running[i].child.wait();
						Some(Some(-9))
					} else {
						None
					}
				}
				Err(_) => Some(None),
			};
			if let Some(code) = done {
				progressed = true;
				let job = running.remove(i);
				let parsed: Option<RunResult> = std::fs::read_to_string(&job.out)
					.ok()
					.and_then(|t| serde_json::from_str(&t).ok());
				match parsed {
					Some(r) => {
						cov.merge(&r.cov);
						if let Some(ab) = &r.aborted {
							*aborted.entry(ab.clone()).or_insert(0) += 1;
						}
						hashes.push((r.seed, r.trace_hash.clone()));
						for kh in &r.known_hits {
							*known_cont_hits.entry(kh.signature.clone()).or_insert(0) += 1;
						}
						if !r.violations.is_empty() {
							if let Ok(t) = std::fs::read_to_string(&job.replay) {
								if let Ok(rf) = serde_json::from_str::<ReplayFile>(&t) {
									failures.push((job.seed, rf));
								}
							}
						}
						results.push(r);
					}
					None => {
						// abnormal death: the journal has every step up to the fatal one
						abnormal.push((
							job.seed,
							format!("exit {:?}, journal {}", code, job.journal),
						));
					}
				}
				let _ = std::fs::remove_file(&job.out);
			} else {
				i += 1;
			}
		}
		if !progressed {
			std::thread::sleep(Duration::from_millis(5));
		}
	}
	let runs_done = results.len() as u64;
	let explore_s = start.elapsed().as_secs_f64();

	// group failures by (oracle, signature)
	let mut groups: BTreeMap<(String, String), Vec<(u64, ReplayFile)>> = BTreeMap::new();
	for (seed, rf) in failures {
		groups
			.entry((rf.oracle.clone(), rf.signature.clone()))
			.or_default()
			.push((seed, rf));
	}
	let mut exit = 0;
	let mut n_viol = 0;
	let mut known_hit: BTreeSet<String> = BTreeSet::new();
	let replays_dir = format!("{}/replays", verif_root());
	let _ = std::fs::create_dir_all(&replays_dir);
	for (sig, n) in &known_cont_hits {
		if let Some(k) = known.iter().find(|k| k.property == prop && k.signature == *sig) {
			if known_hit.insert(sig.clone()) {
				println!(
					"KNOWN-FINDING: property={} {} [signature {}; {} occurrence(s)]",
					prop, k.what, sig, n
				);
			}
		}
	}
	for ((oracle, sig), list) in groups.iter() {
		let kf = known
			.iter()
			.find(|k| k.property == prop && k.signature == *sig && k.status == "known");
		if let Some(k) = kf {
			if known_hit.insert(sig.clone()) {
				println!(
					"KNOWN-FINDING: property={} {} [signature {}; {} run(s)]",
					prop,
					k.what,
					sig,
					list.len()
				);
			}
			continue;
		}
		n_viol += 1;
		// smallest trace first
		let mut list = list.clone();
		list.sort_by_key(|(_, rf)| rf.trace.len());
		let (seed, rf) = &list[0];
		let orig_path = format!("{}/orig-{}.json", tmp, seed);
		let _ = std::fs::write(&orig_path, serde_json::to_string(rf).unwrap());
		let r0 = run_replay_file(&orig_path, &tmp, "orig", Duration::from_secs(300));
		if !reproduces(&r0, oracle, sig) {
			eprintln!(
				"HARNESS-ERROR: violation {}:{} (seed {}) did not replay in a fresh process",
				oracle, sig, seed
			);
			let keep = format!("{}/{}-{}-nonreplaying.json", replays_dir, prop, seed);
			let _ = std::fs::write(&keep, serde_json::to_string_pretty(rf).unwrap());
			exit = 2;
			continue;
		}
		let min = minimise(
			rf,
			&tmp,
			Duration::from_secs(if thorough { 400 } else { 90 }),
			jobs,
		);
		let min_path = format!("{}/{}-{}.json", replays_dir, prop, seed);
		let _ = std::fs::write(&min_path, serde_json::to_string_pretty(&min).unwrap());
		let r1 = run_replay_file(&min_path, &tmp, "final", Duration::from_secs(300));
		if !reproduces(&r1, oracle, sig) {
			let _ = std::fs::write(&min_path, serde_json::to_string_pretty(rf).unwrap());
		}
		println!("VIOLATION property={} replay={}", prop, min_path);
		println!(
			"  oracle={} signature={} seeds={} steps={} detail={}",
			oracle,
			sig,
			list.len(),
			min.trace.len(),
			rf.detail
		);
		if exit == 0 {
			exit = 1;
		}
	}
	if !abnormal.is_empty() {
		// the journal holds every step up to and including the fatal one. For the
		// property that forbids crashing, looping and unbounded allocation (C09) an
		// abnormal death (abort, watchdog kill, allocation failure) is a violation
		// whose replay file is the journal; elsewhere it is a harness error.
		for (seed, why) in &abnormal {
			let journal = format!("{}/{}.journal", tmp, seed);
			let steps: Vec<crate::ops::Step> = std::fs::read_to_string(&journal)
				.unwrap_or_default()
				.lines()
				.filter_map(|l| serde_json::from_str(l).ok())
				.collect();
			if prop == "C09" && !steps.is_empty() {
				let last = steps.last().map(|s| serde_json::to_string(s).unwrap_or_default()).unwrap_or_default();
				let entry = steps
					.last()
					.and_then(|s| match &s.op {
						crate::ops::Op::Custom { args, .. } => args["entry"].as_str().map(|x| x.to_owned()),
						_ => None,
					})
					.unwrap_or_else(|| "history".into());
				let sig = format!("abnormal_death:{}", entry);
				if known.iter().any(|k| k.property == prop && k.signature == sig && k.status == "known") {
					if known_hit.insert(sig.clone()) {
						println!("KNOWN-FINDING: property={} process died abnormally in {}", prop, entry);
					}
					continue;
				}
				let rf = ReplayFile {
					property: prop.clone(),
					oracle: "no_abnormal_death".into(),
					signature: sig,
					detail: format!("the run died abnormally ({}); last journaled step: {}", why, last),
					seed: *seed,
					tier: tier.clone(),
					knobs: BTreeMap::new(),
					trace: steps,
				};
				let path = format!("{}/{}-{}-abnormal.json", replays_dir, prop, seed);
				let _ = std::fs::write(&path, serde_json::to_string_pretty(&rf).unwrap());
				println!("VIOLATION property={} replay={}", prop, path);
				println!("  oracle=no_abnormal_death signature={} detail={}", rf.signature, rf.detail.chars().take(300).collect::<String>());
				n_viol += 1;
				if exit == 0 {
					exit = 1;
				}
			} else {
				eprintln!("HARNESS-ERROR: run seed {} died abnormally: {}", seed, why);
				if exit == 0 {
					exit = 2;
				}
			}
		}
	}

	// evidence
	let wall = start.elapsed().as_secs_f64();
	let (commits, lock_scopes, _, _) = (0u64, 0u64, 0u64, 0u64);
	let _ = (commits, lock_scopes);
	let zero_probes: Vec<String> = vec![];
	let ev = json!({
		"property_id": prop,
		"tier": tier,
		"seed": base_seed,
		"level": crate::props::level(&prop),
		"coverage": {
			"evaluations": cov.evaluations,
			"distinct_nontrivial": cov.keys.len(),
			"rule": crate::props::rule(&prop),
			"samples": cov.samples,
			"runs": runs_done,
			"runs_launched": launched,
			"steps": cov.steps,
			"runs_per_hour": if explore_s > 0.0 { (runs_done as f64 / explore_s * 3600.0) as u64 } else { 0 },
			"simulated_seconds": cov.sim_ms / 1000,
			"simulated_blocks": cov.blocks,
			"faults_fired": cov.faults,
			"probes": cov.probes,
			"not_judged": cov.not_judged,
			"op_outcomes": cov.outcomes,
			"distinct_world_states": cov.states.len(),
			"aborted_runs": aborted,
			"aborted_detail": cov.aborted,
			"known_findings_hit": known_hit.iter().collect::<Vec<_>>(),
			"zero_probes": zero_probes,
			"components": {
				"real": ["grin_wallet_libwallet", "grin_wallet_impls (DefaultLCProvider, LMDBBackend, LMDB)", "grin_wallet_api (Owner, Foreign)", "grin_wallet_controller handlers (where used)", "grin_chain::Chain", "grin_core consensus/crypto"],
				"simulated": ["transport (SimNet)", "node availability (SimNodeClient fault plan)", "clock (verif hooks)", "entropy (getrandom/syscall override)", "crash / failing-write points (verif hooks)", "thread schedule (C20)"],
				"stubbed": [],
				"not_run": ["HTTP/Tor adapters", "hyper accept loop", "CLI"]
			}
		},
		"assumptions": crate::props::assumptions(&prop),
		"wall_s": wall,
		"violations": n_viol,
	});
	let ev_dir = format!("{}/evidence", verif_root());
	let _ = std::fs::create_dir_all(&ev_dir);
	let _ = std::fs::write(
		format!("{}/{}.json", ev_dir, prop),
		serde_json::to_string_pretty(&ev).unwrap(),
	);
	println!(
		"gwsim batch {} {}: runs={} steps={} cases={} distinct={} violations={} known={} wall={:.1}s",
		prop,
		tier,
		runs_done,
		cov.steps,
		cov.evaluations,
		cov.keys.len(),
		n_viol,
		known_hit.len(),
		wall
	);
	if runs_done == 0 {
		eprintln!("HARNESS-ERROR: no run completed");
		exit = 2;
	}
	// runs that stopped early because the simulated world could not be driven any
	// further (a block the real chain refuses, a panic outside the property's scope)
	// explored little: when that is the rule rather than the exception nothing may
	// be concluded from "no violation"
	let n_aborted: u64 = aborted.values().sum();
	if exit == 0 && runs_done > 0 && n_aborted * 2 > runs_done {
		let mut kinds: Vec<String> = aborted
			.keys()
			.map(|k| k.split(": Commitment(").next().unwrap_or(k).chars().take(120).collect())
			.collect();
		kinds.sort();
		kinds.dedup();
		eprintln!(
			"HARNESS-ERROR: {} of {} runs were abandoned before their history ended ({}): this tree cannot be explored by this check, nothing is concluded",
			n_aborted,
			runs_done,
			kinds.into_iter().take(3).collect::<Vec<_>>().join("; ")
		);
		exit = 2;
	}
	let _ = std::fs::remove_dir_all(&tmp);
	sweep_scratch();
	exit
}

pub fn cmd_shrink(a: &Args) -> i32 {
	let file = match a.pos.get(1) {
		Some(f) => f.clone(),
		None => return 2,
	};
	let rf: ReplayFile = match std::fs::read_to_string(&file)
		.ok()
		.and_then(|t| serde_json::from_str(&t).ok())
	{
		Some(r) => r,
		None => return 2,
	};
	let tmp = format!("{}/gwsim-{}-shrink", scratch_root(), std::process::id());
	let _ = std::fs::create_dir_all(&tmp);
	let min = minimise(&rf, &tmp, Duration::from_secs(600), 16);
	let _ = std::fs::write(&file, serde_json::to_string_pretty(&min).unwrap());
	println!("shrunk {} -> {} steps", rf.trace.len(), min.trace.len());
	let _ = std::fs::remove_dir_all(&tmp);
	0
}

/// determinism self-test: each seed twice in separate processes, also with a
/// different number of concurrent children; compares full trace hashes
pub fn cmd_selftest(a: &Args) -> i32 {
	let props: Vec<String> = match a.kv.get("prop") {
		Some(p) => vec![p.clone()],
		None => crate::props::ALL.iter().map(|s| s.to_string()).collect(),
	};
	let n: u64 = a.kv.get("n").and_then(|s| s.parse().ok()).unwrap_or(40);
	let base: u64 = a.kv.get("seed").and_then(|s| s.parse().ok()).unwrap_or(777);
	let tmp = format!("{}/gwsim-{}-selftest", scratch_root(), std::process::id());
	let _ = std::fs::create_dir_all(&tmp);
	let mut bad = 0;
	for prop in props {
		let mut by_seed: BTreeMap<u64, Vec<String>> = BTreeMap::new();
		for (pass, width) in [(0usize, 16usize), (1, 3)].iter() {
			let mut launched = 0u64;
			let mut running: Vec<Job> = vec![];
			loop {
				while running.len() < *width && launched < n {
					let seed = run_seed(&prop, launched, base);
					let d = format!("{}/p{}", tmp, pass);
					let _ = std::fs::create_dir_all(&d);
					running.push(spawn_run(&prop, seed, "quick", &d));
					launched += 1;
				}
				if running.is_empty() {
					break;
				}
				let mut i = 0;
				while i < running.len() {
					if let Ok(Some(_)) = running[i].child.try_wait() {
						let job = running.remove(i);
						let h = std::fs::read_to_string(&job.out)
							.ok()
							.and_then(|t| serde_json::from_str::<RunResult>(&t).ok())
							.map(|r| format!("{}:{}", r.trace_hash, r.steps))
							.unwrap_or_else(|| "DIED".into());
						by_seed.entry(job.seed).or_default().push(h);
					} else {
						i += 1;
					}
				}
				std::thread::sleep(Duration::from_millis(5));
			}
		}
		let mut mism = 0;
		for (seed, hs) in &by_seed {
			if hs.len() != 2 || hs[0] != hs[1] || hs[0] == "DIED" {
				mism += 1;
				eprintln!("DETERMINISM MISMATCH prop={} seed={} {:?}", prop, seed, hs);
			}
		}
		println!(
			"selftest determinism {}: {} seeds x 2 processes (widths 16 and 3), {} mismatches",
			prop,
			by_seed.len(),
			mism
		);
		bad += mism;
	}
	let _ = std::fs::remove_dir_all(&tmp);
	if bad > 0 {
		2
	} else {
		0
	}
}
