//! C14 — a masked wallet does nothing without the right token.

use crate::gen::{GenCfg, HistGen};
use crate::ops::{Exec, Op, OpRes, Step, StepOut};
use crate::rng::SimRng;
use crate::run::{sample_trace, Prop, Run, Violation};
use crate::world::World;
use grin_core::core::OutputFeatures;
use grin_util::secp::key::SecretKey;
use grin_util::static_secp_instance;
use grin_wallet_libwallet::{InitTxArgs, IssueInvoiceTxArgs};
use serde_json::{json, Value};
use std::collections::BTreeMap;

pub struct C14 {
	gen: HistGen,
	/// tokens handed out by earlier opens of each wallet
	old_tokens: BTreeMap<usize, Vec<SecretKey>>,
	last_token: BTreeMap<usize, SecretKey>,
	pre: Option<(usize, std::collections::BTreeMap<String, u64>)>,
	pre_active: Option<String>,
	calls: u64,
	closed_by_script: Option<usize>,
}

const MUST_FAIL: &[&str] = &[
	"create_account_path",
	"init_send_tx",
	"issue_invoice_tx",
	"process_invoice_tx",
	"tx_lock_outputs",
	"finalize_tx",
	"cancel_tx",
	"get_slatepack_address",
	"get_slatepack_secret_key",
	"create_slatepack_message",
	"build_output",
	"scan",
	"get_rewind_hash",
	"retrieve_summary_info_refresh",
];

const READ_ONLY: &[&str] = &[
	"accounts",
	"retrieve_txs",
	"retrieve_summary_info",
	"retrieve_outputs",
	"node_height",
	"get_stored_tx",
];

/// judged on their effect only (never called with the right token by the script: the
/// unmasked twin skips scripted calls)
const EFFECT_ONLY: &[&str] = &["set_active_account"];

const TOKEN_CLASSES: &[&str] = &["right", "absent", "random", "bitflip", "other_wallet", "previous_open"];

fn world_proj(world: &World) -> Vec<String> {
	let mut v = vec![];
	for w in 0..world.wallets.len() {
		if !world.is_open(w) {
			v.push(format!("w{}|closed", w));
			continue;
		}
		let s = world.snap(w);
		let mut lines = vec![];
		for o in &s.outputs {
			lines.push(format!(
				"w{}|out|{}|{}|{}|{}",
				w,
				s.acct_label(&o.root_key_id),
				o.value,
				o.status,
				o.is_coinbase
			));
		}
		for t in &s.txs {
			lines.push(format!(
				"w{}|tx|{}|{:?}|{}|{}|{}|{}|{}|{:?}|{}|{}",
				w,
				s.acct_label(&t.parent_key_id),
				t.tx_type,
				t.confirmed,
				t.num_inputs,
				t.num_outputs,
				t.amount_credited,
				t.amount_debited,
				t.fee.map(|f| f.fee()),
				t.kernel_excess.is_some(),
				t.payment_proof.is_some()
			));
		}
		for a in &s.accts {
			lines.push(format!("w{}|acct|{}", w, a.label));
		}
		lines.sort();
		v.extend(lines);
	}
	v
}

impl C14 {
	pub fn new(run: &mut Run) -> C14 {
		let mut cfg = GenCfg::swarm(run);
		cfg.use_mask = true;
		cfg.boundary_args = false;
		cfg.w_restart = 2 + run.rng.below(3) as u32;
		cfg.allow_proof = true;
		let gen = HistGen::new(cfg, run);
		C14 {
			gen,
			old_tokens: BTreeMap::new(),
			last_token: BTreeMap::new(),
			pre: None,
			pre_active: None,
			calls: 0,
			closed_by_script: None,
		}
	}

	fn note_tokens(&mut self, run: &Run) {
		for w in 0..run.ex.world.wallets.len() {
			if let Some(m) = run.ex.world.mask(w) {
				match self.last_token.get(&w) {
					Some(l) if *l == m => {}
					Some(l) => {
						let l = l.clone();
						self.old_tokens.entry(w).or_default().push(l);
						self.last_token.insert(w, m);
					}
					None => {
						self.last_token.insert(w, m);
					}
				}
			}
		}
	}

	fn token(&self, ex: &Exec, w: usize, class: &str, seed: u64) -> Option<Option<SecretKey>> {
		let right = ex.world.mask(w);
		let secp = static_secp_instance();
		let secp = secp.lock();
		match class {
			"right" => Some(right),
			"absent" => Some(None),
			"random" => {
				let mut r = SimRng::new(seed ^ 0x70c);
				loop {
					if let Ok(k) = SecretKey::from_slice(&secp, &r.bytes(32)) {
						return Some(Some(k));
					}
				}
			}
			"bitflip" => {
				let mut b = right?.0;
				b[(seed % 32) as usize] ^= 1 << (seed % 8);
				SecretKey::from_slice(&secp, &b).ok().map(Some)
			}
			"other_wallet" => {
				let n = ex.world.wallets.len();
				for o in 0..n {
					if o != w {
						if let Some(m) = ex.world.mask(o) {
							return Some(Some(m));
						}
					}
				}
				None
			}
			"previous_open" => self
				.old_tokens
				.get(&w)
				.and_then(|v| v.last().cloned())
				.map(Some),
			_ => None,
		}
	}
}

impl Prop for C14 {
	fn id(&self) -> &'static str {
		"C14"
	}

	fn custom(&mut self, ex: &mut Exec, name: &str, a: &Value) -> OpRes {
		let w = a["w"].as_u64().unwrap_or(0) as usize;
		if w >= ex.world.wallets.len() {
			return OpRes::Skipped("unavailable".into());
		}
		if name == "open_wrong" {
			// an attempt to open the closed wallet with a wrong password: it fails, and the
			// wallet stays closed
			let pw = format!("{}-wrong", ex.world.wallets[w].password);
			return match ex.world.owner(w).open_wallet(None, grin_util::ZeroingString::from(pw.as_str()), true) {
				Ok(_) => OpRes::Ok { new_msg: None, note: "opened with a wrong password".into(), validated: None, new_wallet: None },
				Err(e) => OpRes::Err(format!("{}", e)),
			};
		}
		if name == "close" {
			if !ex.world.is_open(w) {
				return OpRes::Skipped("closed".into());
			}
			return match ex.world.owner(w).close_wallet(None) {
				Ok(_) => OpRes::Ok { new_msg: None, note: String::new(), validated: None, new_wallet: None },
				Err(e) => OpRes::Err(format!("{}", e)),
			};
		}
		if name != "token_call" {
			return OpRes::Skipped("unknown".into());
		}
		if ex.world.wallets[w].inst.is_none() {
			return OpRes::Skipped("no handle".into());
		}
		let method = a["method"].as_str().unwrap_or("");
		let class = a["token"].as_str().unwrap_or("absent");
		let seed = a["seed"].as_u64().unwrap_or(0);
		let tok = match self.token(ex, w, class, seed) {
			Some(t) => t,
			None => return OpRes::Skipped("token class unavailable".into()),
		};
		let t = tok.as_ref();
		let o = ex.world.owner(w);
		let slate = if ex.msgs.is_empty() {
			None
		} else {
			Some(ex.msgs[(seed as usize) % ex.msgs.len()].slate.clone())
		};
		let r: Result<String, String> = match method {
			"accounts" => o.accounts(t).map(|x| format!("{}", x.len())).map_err(|e| format!("{}", e)),
			"retrieve_txs" => o
				.retrieve_txs(t, false, None, None, None)
				.map(|x| format!("{}", x.1.len()))
				.map_err(|e| format!("{}", e)),
			"retrieve_summary_info" => o
				.retrieve_summary_info(t, false, 1)
				.map(|x| format!("{}", x.1.total))
				.map_err(|e| format!("{}", e)),
			"retrieve_summary_info_refresh" => o
				.retrieve_summary_info(t, true, 1)
				.map(|x| format!("{}", x.1.total))
				.map_err(|e| format!("{}", e)),
			"retrieve_outputs" => o
				.retrieve_outputs(t, true, false, None)
				.map(|x| format!("{}", x.1.len()))
				.map_err(|e| format!("{}", e)),
			"node_height" => o.node_height(t).map(|x| format!("{}", x.height)).map_err(|e| format!("{}", e)),
			"get_stored_tx" => match &slate {
				Some(s) => o
					.get_stored_tx(t, None, Some(&s.id))
					.map(|x| format!("{}", x.is_some()))
					.map_err(|e| format!("{}", e)),
				None => return OpRes::Skipped("no slate".into()),
			},
			"create_account_path" => o
				.create_account_path(t, &format!("tok{}", seed % 1000))
				.map(|_| String::new())
				.map_err(|e| format!("{}", e)),
			"init_send_tx" => o
				.init_send_tx(
					t,
					InitTxArgs {
						amount: 1_000_000_000,
						minimum_confirmations: 1,
						..Default::default()
					},
				)
				.map(|_| String::new())
				.map_err(|e| format!("{}", e)),
			"issue_invoice_tx" => o
				.issue_invoice_tx(
					t,
					IssueInvoiceTxArgs {
						amount: 1_000_000_000,
						..Default::default()
					},
				)
				.map(|_| String::new())
				.map_err(|e| format!("{}", e)),
			"process_invoice_tx" | "tx_lock_outputs" | "finalize_tx" | "create_slatepack_message" => {
				let s = match &slate {
					Some(s) => s.clone(),
					None => return OpRes::Skipped("no slate".into()),
				};
				match method {
					"process_invoice_tx" => o
						.process_invoice_tx(
							t,
							&s,
							InitTxArgs {
								minimum_confirmations: 1,
								..Default::default()
							},
						)
						.map(|_| String::new())
						.map_err(|e| format!("{}", e)),
					"tx_lock_outputs" => o.tx_lock_outputs(t, &s).map(|_| String::new()).map_err(|e| format!("{}", e)),
					"finalize_tx" => o.finalize_tx(t, &s).map(|_| String::new()).map_err(|e| format!("{}", e)),
					_ => o
						.create_slatepack_message(t, &s, Some(0), vec![])
						.map(|_| String::new())
						.map_err(|e| format!("{}", e)),
				}
			}
			"cancel_tx" => o
				.cancel_tx(t, Some((seed % 6) as u32), None)
				.map(|_| String::new())
				.map_err(|e| format!("{}", e)),
			"get_slatepack_address" => o
				.get_slatepack_address(t, 0)
				.map(|a| format!("{}", a))
				.map_err(|e| format!("{}", e)),
			"get_slatepack_secret_key" => o
				.get_slatepack_secret_key(t, 0)
				.map(|_| "secret".to_owned())
				.map_err(|e| format!("{}", e)),
			"build_output" => o
				.build_output(t, OutputFeatures::Plain, 12345)
				.map(|_| String::new())
				.map_err(|e| format!("{}", e)),
			"scan" => o.scan(t, None, false).map(|_| String::new()).map_err(|e| format!("{}", e)),
			"get_rewind_hash" => o.get_rewind_hash(t).map_err(|e| format!("{}", e)),
			"set_active_account" => {
				// an existing label, preferably not the active one
				let snap = ex.world.snap(w);
				let others: Vec<String> = snap
					.accts
					.iter()
					.map(|a| a.label.clone())
					.filter(|l| *l != snap.active)
					.collect();
				let label = if others.is_empty() {
					snap.active.clone()
				} else {
					others[(seed as usize) % others.len()].clone()
				};
				o.set_active_account(t, &label).map(|_| label).map_err(|e| format!("{}", e))
			}
			_ => return OpRes::Skipped("unknown method".into()),
		};
		match r {
			Ok(n) => OpRes::Ok { new_msg: None, note: n, validated: None, new_wallet: None },
			Err(e) => OpRes::Err(e),
		}
	}

	fn next(&mut self, run: &mut Run) -> Option<Step> {
		if let Some(w) = self.closed_by_script {
			// after close: a few calls with the (formerly) right token, then reopen
			if run.rng.chance(1, 4) {
				return Some(Step::new(Op::Restart { w }));
			}
			if run.rng.chance(1, 5) {
				run.cov.probe("failed_open_attempt_on_a_closed_wallet");
				return Some(Step::new(Op::Custom { name: "open_wrong".into(), args: json!({"w": w}) }));
			}
			let all: Vec<&str> = MUST_FAIL.iter().chain(READ_ONLY.iter()).cloned().collect();
			return Some(Step::new(Op::Custom {
				name: "token_call".into(),
				args: json!({"w": w, "method": *run.rng.pick(&all), "token": *run.rng.pick(&["right", "right", "absent"]), "seed": run.rng.below(1 << 30)}),
			}));
		}
		if self.gen.setup_done && !run.ex.world.wallets.is_empty() {
			let nw = run.ex.world.wallets.len();
			if run.rng.chance(2, 5) {
				let w = run.rng.idx(nw);
				let all: Vec<&str> = MUST_FAIL
					.iter()
					.chain(READ_ONLY.iter())
					.chain(EFFECT_ONLY.iter())
					.cloned()
					.collect();
				let method = *run.rng.pick(&all);
				let class = *run.rng.pick(TOKEN_CLASSES);
				let class = if class == "right" && EFFECT_ONLY.contains(&method) { "bitflip" } else { class };
				// the right token only with read-only methods here (the history itself
				// exercises the state-changing ones with the right token)
				let class = if class == "right" && MUST_FAIL.contains(&method) { "absent" } else { class };
				return Some(Step::new(Op::Custom {
					name: "token_call".into(),
					args: json!({"w": w, "method": method, "token": class, "seed": run.rng.below(1 << 30)}),
				}));
			}
			if run.rng.chance(1, 30) {
				let w = run.rng.idx(nw);
				return Some(Step::new(Op::Custom { name: "close".into(), args: json!({"w": w}) }));
			}
		}
		self.gen.next(run)
	}

	fn before(&mut self, run: &mut Run, step: &Step) {
		self.pre = None;
		self.note_tokens(run);
		if let Op::Custom { name, args } = &step.op {
			if name == "token_call" {
				let w = args["w"].as_u64().unwrap_or(0) as usize;
				if w < run.ex.world.wallets.len() {
					self.pre = Some((w, run.ex.world.dir_state(w)));
					self.pre_active = if run.ex.world.is_open(w) && run.ex.world.wallets[w].inst.is_some() {
						Some(run.ex.world.snap(w).active)
					} else {
						None
					};
				}
			}
		}
	}

	fn after(&mut self, run: &mut Run, step: &Step, out: &StepOut) -> Vec<Violation> {
		let mut v = vec![];
		self.gen.feedback(run, step, out);
		self.note_tokens(run);
		// whether the script has closed a wallet is a fact of the trace (a replay does not
		// run the generator): close_wallet succeeded and no reopen since
		match &step.op {
			Op::Custom { name, args } if name == "close" && out.ok => {
				self.closed_by_script = Some(args["w"].as_u64().unwrap_or(0) as usize);
			}
			Op::Restart { w } if self.closed_by_script == Some(*w) => {
				self.closed_by_script = None;
			}
			_ => {}
		}
		if let Op::Custom { name, args } = &step.op {
			if name == "token_call" && !out.skipped {
				let (w, dig0) = match self.pre.take() {
					Some(p) => p,
					None => return v,
				};
				let method = args["method"].as_str().unwrap_or("").to_owned();
				let class = args["token"].as_str().unwrap_or("").to_owned();
				let closed = self.closed_by_script == Some(w);
				self.calls += 1;
				let state = if closed { "closed" } else { "open" };
				run.cov.case(&format!("{}|{}|{}", method, class, state), class != "right" || closed);
				let dig1 = run.ex.world.dir_state(w);
				let wrong = class != "right";
				if closed {
					// after the wallet is closed no operation succeeds until it is reopened
					if out.ok && method != "node_height" {
						v.push(run.viol(
							"closed_wallet",
							&format!("call_succeeded_on_closed_wallet:{}", method),
							format!("wallet {}: {} succeeded after close_wallet", w, method),
						));
						return v;
					}
					if out.ok && method == "node_height" {
						run.cov.not_judged("node_height_on_closed_wallet");
					}
				} else if wrong {
					if MUST_FAIL.contains(&method.as_str()) && out.ok {
						v.push(run.viol(
							"wrong_token_refused",
							&format!("wrong_token_accepted:{}:{}", method, class),
							format!("wallet {}: {} succeeded with a {} token", w, method, class),
						));
						return v;
					}
					// the account later operations act on is wallet state too
					if let Some(a0) = self.pre_active.take() {
						if run.ex.world.is_open(w) {
							let a1 = run.ex.world.snap(w).active;
							if a0 != a1 {
								v.push(run.viol(
									"wrong_token_no_effect",
									&format!("wrong_token_changed_active_account:{}:{}", method, class),
									format!(
										"wallet {}: {} with a {} token (answer: {}) switched the active account from {} to {}",
										w,
										method,
										class,
										if out.ok { "ok".to_owned() } else { out.err.clone().unwrap_or_default() },
										a0,
										a1
									),
								));
								return v;
							}
						}
					}
					if dig0 != dig1 {
						v.push(run.viol(
							"wrong_token_no_effect",
							&format!("wrong_token_changed_state:{}:{}", method, class),
							format!(
							"wallet {}: {} with a {} token changed the wallet's stored state ({})",
							w,
							method,
							class,
							crate::world::World::dir_diff_kinds(&dig0, &dig1)
						),
						));
						return v;
					}
					if READ_ONLY.contains(&method.as_str()) && out.ok {
						run.cov.probe("read_only_method_answered_without_token");
					}
				} else {
					// right token, read-only method: answers and changes nothing
					if !out.ok && READ_ONLY.contains(&method.as_str()) && method != "get_stored_tx" {
						v.push(run.viol(
							"right_token_works",
							&format!("right_token_refused:{}", method),
							format!("wallet {}: {} failed with the right token: {:?}", w, method, out.err),
						));
						return v;
					}
					if dig0 != dig1 {
						v.push(run.viol(
							"read_only",
							&format!("read_only_method_changed_state:{}", method),
							format!("wallet {}: {} changed stored state", w, method),
						));
						return v;
					}
				}
			}
		}
		if run.trace.len() == 20 {
			let s = sample_trace(run, 20);
			run.cov.sample(s);
		}
		v
	}

	/// with the right token the wallet behaves exactly like an unmasked wallet with
	/// the same seed: replay the same explicit trace in a twin world without masks
	fn finish(&mut self, run: &mut Run) -> Vec<Violation> {
		let mut v = vec![];
		let masked_proj = world_proj(&run.ex.world);
		let masked_outcomes: Vec<(bool, bool)> = run.outs.iter().map(|o| (o.ok, o.skipped)).collect();
		let dir2 = format!("{}-twin", run.ex.world.dir);
		let mut rng2 = SimRng::new(crate::rng::mix(&[run.seed, crate::rng::hash_str(&run.prop_id)]));
		let saved_now = crate::hooks::now_ms();
		crate::hooks::set_now_ms(run.start_ms);
		crate::entropy::rekey_thread(0x7717);
		let world2 = World::new(&dir2, &mut rng2);
		let mut ex2 = Exec { world: world2, msgs: vec![] };
		let mut outcomes2 = vec![];
		let trace = run.trace.clone();
		for st in &trace {
			let mut st2 = st.clone();
			match &mut st2.op {
				Op::CreateWallet { mask, .. } => *mask = false,
				Op::Custom { .. } => {
					outcomes2.push((false, true));
					continue;
				}
				_ => {}
			}
			let mut noc = |_: &mut Exec, _: &str, _: &Value| OpRes::Skipped("twin".into());
			let o = ex2.exec(&st2, &mut noc);
			outcomes2.push((o.ok, o.skipped));
		}
		let twin_proj = world_proj(&ex2.world);
		ex2.world.close_all();
		drop(ex2);
		let _ = std::fs::remove_dir_all(&dir2);
		crate::hooks::set_now_ms(saved_now);
		// a wallet the script closed and never reopened differs trivially
		if self.closed_by_script.is_some() {
			run.cov.not_judged("twin_with_wallet_left_closed");
			return v;
		}
		let mut diverged_step = None;
		for (i, (a, b)) in masked_outcomes.iter().zip(outcomes2.iter()).enumerate() {
			if let Op::Custom { .. } = run.trace[i].op {
				continue;
			}
			if a != b {
				diverged_step = Some(i);
				break;
			}
		}
		run.cov.case("twin_comparison", true);
		if let Some(i) = diverged_step {
			v.push(run.viol(
				"same_as_unmasked",
				&format!("twin_outcome_differs:{}", run.trace[i].kind()),
				format!(
					"step {} ({}) ended ok={} in the masked run but ok={} in the unmasked twin",
					i,
					run.trace[i].kind(),
					masked_outcomes[i].0,
					outcomes2[i].0
				),
			));
			return v;
		}
		if masked_proj != twin_proj {
			let added: Vec<&String> = masked_proj.iter().filter(|x| !twin_proj.contains(x)).take(4).collect();
			let missing: Vec<&String> = twin_proj.iter().filter(|x| !masked_proj.contains(x)).take(4).collect();
			v.push(run.viol(
				"same_as_unmasked",
				"twin_state_differs",
				format!("masked run and unmasked twin end in different states: masked-only {:?}, twin-only {:?}", added, missing),
			));
		}
		v
	}
}
