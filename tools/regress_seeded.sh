#!/bin/bash
# regress_seeded.sh [tier] : run every seeded change under /verif/seeded against the quick
# (or given) check of its property; print one line per seeded change. A seeded change that
# is NOT caught (exit 0) is reported as MISSED. /repo must be clean; every patch is undone.
set -u
TIER="${1:-quick}"
OUT=/verif/seeded/REGRESSION.txt
: > $OUT.tmp
for d in /verif/seeded/*/; do
	ID=$(basename $d)
	[ -f $d/patch.diff ] || continue
	PROP=$(python3 -c "import json;print(json.load(open('$d/meta.json'))['property'])")
	touch /verif/seeded/.stamp
	RES=$(/verif/tools/run_seeded.sh $ID $PROP $TIER 2>&1)
	RC=$(echo "$RES" | sed -n 's/.* exit=\([0-9]*\)$/\1/p' | head -1)
	SIGS=$(echo "$RES" | grep -o "signature=[^ ]*" | sort -u | tr '\n' ' ')
	if [ "$RC" = "1" ]; then V=CAUGHT; elif [ "$RC" = "0" ]; then V=MISSED; else V="ERROR($RC)"; fi
	echo "$ID $PROP $TIER $V $SIGS" | tee -a $OUT.tmp
	# replay files written against a patched tree are of no use afterwards
	find /verif/replays -maxdepth 1 -name "$PROP-*.json" -newer /verif/seeded/.stamp -delete 2>/dev/null
done
mv $OUT.tmp $OUT
rm -f /verif/seeded/.stamp
