//! Counting global allocator (peak heap growth per step) and the real-time
//! watchdog: the only wall-clock dependence of the simulator, used solely to turn
//! a hang into an abnormal death whose journal names the fatal step.

use std::alloc::{GlobalAlloc, Layout, System};
use std::sync::atomic::{AtomicU64, AtomicUsize, Ordering};

pub struct Counting;

static CUR: AtomicUsize = AtomicUsize::new(0);
static PEAK: AtomicUsize = AtomicUsize::new(0);
static STEP_STARTED_MS: AtomicU64 = AtomicU64::new(0);

unsafe impl GlobalAlloc for Counting {
	unsafe fn alloc(&self, l: Layout) -> *mut u8 {
		let p = System.alloc(l);
		if !p.is_null() {
			let c = CUR.fetch_add(l.size(), Ordering::Relaxed) + l.size();
			PEAK.fetch_max(c, Ordering::Relaxed);
		}
		p
	}
	unsafe fn dealloc(&self, p: *mut u8, l: Layout) {
		System.dealloc(p, l);
		CUR.fetch_sub(l.size(), Ordering::Relaxed);
	}
	unsafe fn realloc(&self, p: *mut u8, l: Layout, new_size: usize) -> *mut u8 {
		let q = System.realloc(p, l, new_size);
		if !q.is_null() {
			if new_size >= l.size() {
				let c = CUR.fetch_add(new_size - l.size(), Ordering::Relaxed) + (new_size - l.size());
				PEAK.fetch_max(c, Ordering::Relaxed);
			} else {
				CUR.fetch_sub(l.size() - new_size, Ordering::Relaxed);
			}
		}
		q
	}
}

fn now_ms() -> u64 {
	use std::time::{SystemTime, UNIX_EPOCH};
	SystemTime::now().duration_since(UNIX_EPOCH).map(|d| d.as_millis() as u64).unwrap_or(0)
}

pub fn begin_step() -> usize {
	let c = CUR.load(Ordering::Relaxed);
	PEAK.store(c, Ordering::Relaxed);
	STEP_STARTED_MS.store(now_ms(), Ordering::Relaxed);
	c
}

/// forget the harness's own allocations so far in this step (e.g. building the input)
pub fn rebase() {
	PEAK.store(CUR.load(Ordering::Relaxed), Ordering::Relaxed);
}

pub fn end_step(base: usize) -> usize {
	STEP_STARTED_MS.store(0, Ordering::Relaxed);
	PEAK.load(Ordering::Relaxed).saturating_sub(base)
}

/// abort the process when one step runs longer than `limit_s` of real time
pub fn start_watchdog(limit_s: u64) {
	std::thread::spawn(move || loop {
		std::thread::sleep(std::time::Duration::from_millis(500));
		let s = STEP_STARTED_MS.load(Ordering::Relaxed);
		if s != 0 && now_ms().saturating_sub(s) > limit_s * 1000 {
			eprintln!("[gwsim] watchdog: step exceeded {} s of real time, aborting", limit_s);
			std::process::abort();
		}
	});
}
