//! C03 — reserved outputs are exclusive; protocol steps are idempotent.

use crate::gen::{GenCfg, HistGen};
use crate::model::DealKind;
use crate::ops::{Op, Step, StepOut};
use crate::run::{sample_trace, Prop, Run, Violation};
use crate::world::Snap;
use grin_util::ToHex;
use grin_wallet_libwallet::{OutputStatus, TxLogEntryType};
use std::collections::{BTreeMap, BTreeSet};

fn step_msg(step: &Step) -> Option<usize> {
	match &step.op {
		Op::Lock { m, .. }
		| Op::Receive { m, .. }
		| Op::Finalize { m, .. }
		| Op::PayInvoice { m, .. } => Some(*m),
		_ => None,
	}
}

pub struct C03 {
	gen: HistGen,
	pre: Option<(usize, Snap)>,
	/// (kind, wallet, slate id, dest) of protocol steps that already succeeded
	done: BTreeSet<String>,
	repeat_of_ok: bool,
	pub avoid_known: bool,
	/// steps queued behind an inserted one (LIFO)
	queue: Vec<Step>,
	p_bad_reply: u64,
	/// scripted: two accounts of one wallet whose log-id counters are equal each hold a
	/// pending transaction (same numeric id); the second one is cancelled; the first
	/// account then sends again
	twin: Option<Twin>,
	twin_tried: bool,
}

struct Twin {
	w: usize,
	a: String,
	b: String,
	stage: u32,
	m_a: Option<usize>,
	m_b: Option<usize>,
}

impl C03 {
	pub fn new(run: &mut Run) -> C03 {
		let mut cfg = GenCfg::swarm(run);
		cfg.max_inflight = 2 + run.rng.below(3) as usize;
		cfg.w_repeat = 6 + run.rng.below(10) as u32;
		cfg.w_new_send += 8;
		cfg.w_cancel = run.rng.below(5) as u32;
		cfg.boundary_args = false;
		cfg.allow_cancel_after_post = false;
		cfg.allow_late_lock = true;
		cfg.p_late_lock = *run.rng.pick(&[20u64, 40]);
		let gen = HistGen::new(cfg, run);
		C03 {
			gen,
			pre: None,
			done: BTreeSet::new(),
			repeat_of_ok: false,
			avoid_known: false,
			queue: vec![],
			p_bad_reply: *run.rng.pick(&[0u64, 15, 30]),
			twin: None,
			twin_tried: false,
		}
	}

	fn step_key(run: &Run, step: &Step) -> Option<String> {
		let (k, w, m, extra) = match &step.op {
			Op::Lock { w, m } => ("lock", *w, *m, String::new()),
			Op::Receive { w, m, dest, .. } => {
				let snap = run.ex.world.snap(*w);
				(
					"receive",
					*w,
					*m,
					dest.clone().unwrap_or(snap.active),
				)
			}
			Op::Finalize { w, m, .. } => ("finalize", *w, *m, String::new()),
			Op::PayInvoice { w, m, .. } => ("pay", *w, *m, String::new()),
			_ => return None,
		};
		if m >= run.ex.msgs.len() || w >= run.ex.world.wallets.len() {
			return None;
		}
		Some(format!("{}|{}|{}|{}", k, w, run.ex.msgs[m].slate.id, extra))
	}

	/// input key ids of a deal, as far as the simulator knows them
	fn deal_inputs(run: &Run, d: usize, snap: &Snap) -> BTreeSet<String> {
		let deal = &run.model.deals[d];
		// what was reserved when the reservation step succeeded; before any
		// reservation, what the context selected
		let src = if deal.locked && !deal.reserved.is_empty() {
			&deal.reserved
		} else {
			&deal.inputs
		};
		let mut s: BTreeSet<String> = src.iter().map(|(k, _)| k.clone()).collect();
		if s.is_empty() {
			if let Some(tx) = &deal.tx {
				let ins = crate::chain::commits_in(tx);
				for o in &snap.outputs {
					if let Some(c) = &o.commit {
						if ins.iter().any(|i| i.as_ref().to_hex() == *c) {
							s.insert(o.key_id.to_hex());
						}
					}
				}
			}
		}
		s
	}
}

impl C03 {
	fn twin_step(&mut self, run: &mut Run) -> Option<Step> {
		let t = self.twin.as_mut()?;
		let w = t.w;
		let small = |run: &mut Run| {
			let mut a = crate::ops::SendArgs::simple(run.rng.range(1, 9) * 100_000_000 + run.rng.below(1000));
			a.min_conf = 1;
			a.max_outputs = 500;
			a.num_change = 1;
			a.use_all = false;
			a
		};
		let op = match t.stage {
			0 => Op::SetAccount { w, label: t.a.clone() },
			1 => Op::Refresh { w },
			2 => Op::SetAccount { w, label: t.b.clone() },
			3 => Op::Refresh { w },
			4 => Op::SetAccount { w, label: t.a.clone() },
			5 => Op::InitSend { w, args: small(run) },
			6 => Op::Lock { w, m: t.m_a? },
			7 => Op::SetAccount { w, label: t.b.clone() },
			8 => Op::InitSend { w, args: small(run) },
			9 => Op::Lock { w, m: t.m_b? },
			10 => {
				// the precondition the script is after: equal numeric log ids
				let snap = run.ex.world.snap(w);
				let ida = run.ex.msgs.get(t.m_a?).and_then(|m| snap.txs.iter().find(|e| e.tx_slate_id == Some(m.slate.id)).map(|e| e.id));
				let idb = run.ex.msgs.get(t.m_b?).and_then(|m| snap.txs.iter().find(|e| e.tx_slate_id == Some(m.slate.id)).map(|e| e.id));
				if ida.is_some() && ida == idb {
					run.cov.probe("pending_transactions_of_two_accounts_share_a_log_id");
				}
				Op::Cancel { w, m: t.m_b, id: None }
			}
			11 => Op::SetAccount { w, label: t.a.clone() },
			12 => {
				let mut a = small(run);
				a.use_all = true;
				Op::InitSend { w, args: a }
			}
			_ => return None,
		};
		t.stage += 1;
		Some(Step::new(op))
	}
}

impl Prop for C03 {
	fn id(&self) -> &'static str {
		"C03"
	}

	fn next(&mut self, run: &mut Run) -> Option<Step> {
		if let Some(s) = self.queue.pop() {
			return Some(s);
		}
		if self.twin.is_some() {
			match self.twin_step(run) {
				Some(s) => return Some(s),
				None => self.twin = None,
			}
		}
		if !self.gen.in_setup() && self.gen.twins && !self.twin_tried {
			self.twin_tried = true;
			if run.rng.chance(2, 3) {
				let cands: Vec<usize> = (0..self.gen.labels.len())
					.filter(|w| self.gen.labels[*w].len() > 1 && self.gen.cfg.fund_blocks.get(*w).cloned().unwrap_or(0) > 0)
					.collect();
				if !cands.is_empty() {
					let w = *run.rng.pick(&cands);
					let mut l = self.gen.labels[w].clone();
					let i = run.rng.idx(l.len());
					let a = l.remove(i);
					let b = run.rng.pick(&l).clone();
					self.twin = Some(Twin { w, a, b, stage: 0, m_a: None, m_b: None });
					run.cov.probe("twin_accounts_script_started");
					if let Some(s) = self.twin_step(run) {
						return Some(s);
					}
					self.twin = None;
				}
			}
		}
		let st = self.gen.next(run)?;
		// a finalize is sometimes preceded by the same step with a damaged copy of the
		// reply (refused), so the genuine one is a *repeated* finalize of that slate
		if let Op::Finalize { w, m, foreign } = &st.op {
			// (the late-locked send selects and reserves inside finalize: more often there)
			let late = run.model.deal_of_msg(run, *m).map(|d| run.model.deals[d].late_lock).unwrap_or(false);
			let p = if late { std::cmp::max(self.p_bad_reply, 50) } else { self.p_bad_reply };
			if p > 0
				&& run.rng.chance(p, 100)
				&& *m < run.ex.msgs.len()
				&& run.ex.msgs[*m].mutated.is_none()
			{
				let bad = run.ex.msgs.len();
				self.queue.push(st.clone());
				self.queue.push(Step::new(Op::Finalize { w: *w, m: bad, foreign: *foreign }));
				run.cov.probe("finalize_repeated_after_refused_damaged_reply");
				return Some(Step::new(Op::Mutate {
					m: *m,
					kind: (*run.rng.pick(&["part_sig_flip", "part_sig_other", "offset_rand", "part_nonce_rand"])).to_owned(),
					arg: run.rng.next_u64() >> 8,
				}));
			}
		}
		Some(st)
	}

	fn before(&mut self, run: &mut Run, step: &Step) {
		self.pre = None;
		self.repeat_of_ok = false;
		if let Some(w) = step.wallet() {
			if w < run.ex.world.wallets.len() && run.ex.world.is_open(w) {
				self.pre = Some((w, run.ex.world.snap(w)));
			}
		}
		if let Some(k) = Self::step_key(run, step) {
			self.repeat_of_ok = self.done.contains(&k);
			// a step repeated after the wallet cancelled that transaction is left
			// open by the statement ("until the first is cancelled"): not judged
			if self.repeat_of_ok {
				if let (Some((_, pre)), Some(m)) = (&self.pre, step_msg(step)) {
					let id = run.ex.msgs[m].slate.id;
					let cancelled = pre.txs.iter().any(|t| {
						t.tx_slate_id == Some(id)
							&& (t.tx_type == TxLogEntryType::TxSentCancelled
								|| t.tx_type == TxLogEntryType::TxReceivedCancelled)
					});
					if cancelled {
						self.repeat_of_ok = false;
						run.cov.not_judged("repeat_after_cancel");
					}
				}
			}
		}
	}

	fn after(&mut self, run: &mut Run, step: &Step, out: &StepOut) -> Vec<Violation> {
		let mut v = vec![];
		self.gen.feedback(run, step, out);
		if let Op::Mutate { .. } = &step.op {
			if out.new_msg.is_none() && self.queue.len() >= 2 {
				self.queue.pop();
			}
		}
		if let Some(t) = self.twin.as_mut() {
			if let (Op::InitSend { .. }, Some(m)) = (&step.op, out.new_msg) {
				if t.stage == 6 {
					t.m_a = Some(m);
				} else if t.stage == 9 {
					t.m_b = Some(m);
				}
			}
			if !out.ok && !matches!(step.op, Op::Refresh { .. }) {
				self.twin = None;
			}
		}
		let key = Self::step_key(run, step);
		let inflight: Vec<usize> = run
			.model
			.deals
			.iter()
			.enumerate()
			.filter(|(_, d)| d.mined.is_none() && d.cancelled_by.is_empty())
			.map(|(i, _)| i)
			.collect();
		// coverage: a case is a step executed with >= 2 slates in flight on the
		// acting wallet, or a repeated step
		if let Some(w) = step.wallet() {
			let mine: Vec<usize> = inflight
				.iter()
				.cloned()
				.filter(|d| {
					let dl = &run.model.deals[*d];
					dl.payer == Some(w) || dl.payee == Some(w) || dl.initiator == w
				})
				.collect();
			if mine.len() >= 2 || self.repeat_of_ok {
				let same_acct = mine.len() >= 2 && {
					let a: Vec<_> = mine
						.iter()
						.filter(|d| run.model.deals[**d].payer == Some(w))
						.map(|d| run.model.deals[*d].payer_acct.clone())
						.collect();
					a.len() >= 2 && a.iter().any(|x| a.iter().filter(|y| *y == x).count() >= 2)
				};
				let k = format!(
					"{}|{}|{}|{}|{}",
					step.kind(),
					mine.len(),
					self.repeat_of_ok,
					same_acct,
					out.ok
				);
				run.cov.case(&k, same_acct || self.repeat_of_ok);
				if same_acct {
					run.cov.probe("two_slates_in_flight_same_account");
				}
				if self.repeat_of_ok {
					run.cov.probe("repeated_step");
				}
			}
		}

		// (b) a repeated step is refused or has no effect
		if self.repeat_of_ok && out.ok {
			if let Some((w, pre)) = &self.pre {
				let post = run.ex.world.snap(*w);
				// what the statement names: log entries, outputs, reservations
				// (a bumped key index or a rewritten private context is not judged)
				let sid = step_msg(step).map(|m| run.ex.msgs[m].slate.id);
				let proj = |s: &Snap| {
					// entries of this slate, outputs linked to them, and every
					// reservation (an embedded refresh may legitimately update
					// unrelated records)
					let mut v: Vec<String> = vec![];
					let mut ids: Vec<(String, u32)> = vec![];
					for t in &s.txs {
						if t.tx_slate_id.is_some() && t.tx_slate_id == sid {
							v.push(format!(
								"tx|{}|{}|{:?}|{}|{}|{}|{}",
								t.parent_key_id.to_hex(),
								t.id,
								t.tx_type,
								t.num_inputs,
								t.num_outputs,
								t.amount_credited,
								t.amount_debited
							));
							ids.push((t.parent_key_id.to_hex(), t.id));
						}
					}
					for o in &s.outputs {
						let linked = o
							.tx_log_entry
							.map(|i| ids.contains(&(o.root_key_id.to_hex(), i)))
							.unwrap_or(false);
						if linked || o.status == OutputStatus::Locked {
							v.push(format!(
								"out|{}|{}|{}|{}|{:?}",
								o.key_id.to_hex(),
								o.value,
								if o.status == OutputStatus::Locked { "Locked" } else { "-" },
								o.is_coinbase,
								o.tx_log_entry
							));
						}
					}
					v.sort();
					v
				};
				if proj(pre) == proj(&post) && pre.full_proj() != post.full_proj() {
					run.cov.not_judged("repeat_changed_only_key_index");
				}
				// only additions count: an embedded refresh may spend or confirm
				// what was there before
				let grew = {
					let a = proj(pre);
					proj(&post).iter().any(|x| !a.contains(x))
				};
				if grew {
					let a = proj(pre);
					let b = proj(&post);
					let added: Vec<&String> = b.iter().filter(|x| !a.contains(x)).collect();
					let removed: Vec<&String> = a.iter().filter(|x| !b.contains(x)).collect();
					v.push(run.viol(
						"repeat_no_effect",
						&format!("repeat_changed_state:{}", step.kind()),
						format!(
							"repeated {} with the same slate succeeded and changed wallet {}: +{:?} -{:?}",
							step.kind(),
							w,
							added,
							removed
						),
					));
				}
			}
		}
		if out.ok {
			if let Some(k) = key {
				self.done.insert(k);
			}
		}

		// invariants on every open wallet
		for w in 0..run.ex.world.wallets.len() {
			if !run.ex.world.is_open(w) {
				continue;
			}
			let snap = run.ex.world.snap(w);
			// at most one non-cancelled entry per (slate id, direction, account)
			let mut cnt: BTreeMap<String, u32> = BTreeMap::new();
			for t in &snap.txs {
				if let Some(id) = t.tx_slate_id {
					let dir = match t.tx_type {
						TxLogEntryType::TxSent => "sent",
						TxLogEntryType::TxReceived | TxLogEntryType::TxReverted => "recv",
						_ => continue,
					};
					*cnt.entry(format!("{}|{}|{}", id, dir, t.parent_key_id.to_hex()))
						.or_insert(0) += 1;
				}
			}
			for (k, n) in cnt {
				if n > 1 {
					let dir = k.split('|').nth(1).unwrap_or("?").to_owned();
					v.push(run.viol(
						"single_log_entry",
						&format!("duplicate_log_entry:{}", dir),
						format!("wallet {} has {} live {} entries for one slate ({})", w, n, dir, k),
					));
				}
			}
			// (a)/(c) live transactions of this wallet do not share inputs
			let mut owner_of: BTreeMap<String, usize> = BTreeMap::new();
			for (d, deal) in run.model.deals.iter().enumerate() {
				if deal.payer != Some(w) || deal.cancelled_by.contains(&w) {
					continue;
				}
				// reserved by this wallet: locked, or (send flow) finalized, which implies a
				// reservation. An invoice the payee finalized although the payer never
				// ran the reservation step reserved nothing in the payer's wallet.
				if !(deal.locked || (deal.kind == DealKind::Send && deal.finalized)) {
					continue;
				}
				for k in Self::deal_inputs(run, d, &snap) {
					if let Some(o) = owner_of.get(&k) {
						if *o != d {
							v.push(run.viol(
								"exclusive_inputs",
								"double_reservation",
								format!(
									"wallet {}: output {} is an input of two live transactions (deals {} and {})",
									w, k, o, d
								),
							));
						}
					} else {
						owner_of.insert(k, d);
					}
				}
			}
			// a reservation lasts until its own transaction is cancelled or confirmed: while
			// the wallet's sent entry of a reserved deal is live, every output reserved for
			// it is still reserved (or already spent on chain, seen by a refresh)
			for (d, deal) in run.model.deals.iter().enumerate() {
				if deal.payer != Some(w) || !deal.locked || deal.reserved.is_empty() {
					continue;
				}
				let live = snap.txs.iter().any(|t| {
					t.tx_slate_id == Some(deal.id) && t.tx_type == TxLogEntryType::TxSent && !t.confirmed
				});
				if !live {
					continue;
				}
				run.cov.probe("live_reservation_checked_after_a_step");
				for (k, _) in &deal.reserved {
					let st = snap.outputs.iter().find(|o| o.key_id.to_hex() == *k).map(|o| o.status.clone());
					match st {
						Some(OutputStatus::Locked) | Some(OutputStatus::Spent) => {}
						other => {
							v.push(run.viol(
								"exclusive_inputs",
								"reservation_released_while_live",
								format!(
									"wallet {}: output {} reserved for deal {} ({}) is {:?} although that transaction is still live (after {})",
									w,
									k,
									d,
									deal.id,
									other,
									step.kind()
								),
							));
							break;
						}
					}
				}
			}
			// every Locked output is linked to some live sent entry
			for o in &snap.outputs {
				if o.status == OutputStatus::Locked {
					let ok = snap.txs.iter().any(|t| {
						Some(t.id) == o.tx_log_entry
							&& t.parent_key_id == o.root_key_id
							&& t.tx_type == TxLogEntryType::TxSent
					});
					if !ok {
						run.cov.not_judged("locked_without_sent_entry(C06 owns)");
					}
				}
			}
		}
		// a fresh initiation after a reservation selected only unreserved outputs
		if let Op::InitSend { w, .. } | Op::PayInvoice { w, .. } = &step.op {
			if self.repeat_of_ok && out.ok {
				// a repeated pay step merges the earlier context (the wallet takes it
				// for a self-send); judged by the idempotence oracle only
				run.cov.not_judged("selection_of_repeated_pay_step");
			}
			if out.ok && out.new_msg.is_some() && !self.repeat_of_ok {
				if let Some(d) = run.model.deal_of_msg(run, out.new_msg.unwrap()) {
					let deal = &run.model.deals[d];
					if deal.kind == DealKind::Send || deal.payer == Some(*w) {
						let mine: BTreeSet<String> =
							deal.inputs.iter().map(|(k, _)| k.clone()).collect();
						let snap = run.ex.world.snap(*w);
						for (o, other) in run.model.deals.iter().enumerate() {
							if o == d
								|| other.payer != Some(*w)
								|| !other.locked || other.cancelled_by.contains(w)
								|| other.mined.is_some()
							{
								continue;
							}
							let theirs = Self::deal_inputs(run, o, &snap);
							if let Some(k) = mine.intersection(&theirs).next() {
								v.push(run.viol(
									"select_unreserved",
									"selected_reserved_output",
									format!(
										"wallet {}: new transaction selected output {} already reserved by deal {}",
										w, k, o
									),
								));
							}
						}
					}
				}
			}
		}
		if run.trace.len() == 12 {
			let s = sample_trace(run, 12);
			run.cov.sample(s);
		}
		v.truncate(1);
		v
	}
}
