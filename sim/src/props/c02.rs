//! C02 — finalized transactions are valid, exact, and safe against an altered reply.

use crate::gen::{GenCfg, HistGen};
use crate::model::DealKind;
use crate::mutate::SLATE_MUTATIONS;
use crate::ops::{Op, Step, StepOut};
use crate::run::{sample_trace, Prop, Run, Violation};
use grin_core::core::transaction::Weighting;
use grin_core::libtx::tx_fee;
use grin_core::ser;
use grin_keychain::{Keychain, SwitchCommitmentType};
use grin_util::secp::pedersen::Commitment;
use grin_util::ToHex;
use grin_wallet_libwallet::{OutputStatus, TxLogEntryType};
use std::collections::BTreeSet;

pub struct C02 {
	gen: HistGen,
	/// deals whose finalize failed; the generator then tries to cancel them
	failed_final: Vec<usize>,
	pending_mut: Option<(usize, usize)>,
	p_mutate: u64,
	/// how many times each deal was re-queued after a refused finalize
	requeued: std::collections::BTreeMap<usize, u32>,
}

impl C02 {
	pub fn new(run: &mut Run) -> C02 {
		let mut cfg = GenCfg::swarm(run);
		cfg.boundary_args = false;
		cfg.w_cancel = 0;
		cfg.w_repeat = run.rng.below(3) as u32;
		cfg.w_new_invoice += 4;
		cfg.allow_late_lock = true;
		cfg.allow_self_send = true;
		// known defect family (C04/C05): a later transaction that spends this one's
		// still-unconfirmed change re-tags the records the exactness oracle reads
		cfg.avoid_spend_unconfirmed = true;
		cfg.p_late_lock = *run.rng.pick(&[20u64, 35, 50]);
		let mut p_mutate = if run.rng.chance(1, 4) { 0 } else { 20 + run.rng.below(40) };
		// swarm: some runs concentrate on late-locked sends whose first reply is altered
		let late_focus = run.rng.chance(1, 5);
		if late_focus {
			cfg.p_late_lock = 90;
			cfg.w_new_send += 8;
			p_mutate = 70;
		}
		let gen = HistGen::new(cfg, run);
		C02 {
			gen,
			failed_final: vec![],
			pending_mut: None,
			p_mutate,
			requeued: Default::default(),
		}
	}

	fn hexset(v: &[Commitment]) -> BTreeSet<String> {
		v.iter().map(|c| c.as_ref().to_hex()).collect()
	}

	fn judge_final(&self, run: &mut Run, w: usize, d: usize, msg: usize, mutated: Option<String>) -> Vec<Violation> {
		let mut v = vec![];
		let deal = run.model.deals[d].clone();
		let slate = run.ex.msgs[msg].slate.clone();
		let flow = match (&deal.kind, deal.late_lock, deal.payer == deal.payee) {
			(DealKind::Send, true, _) => "late_lock",
			(DealKind::Send, _, true) => "self_send",
			(DealKind::Send, _, _) => "send",
			(DealKind::Invoice, _, true) => "self_invoice",
			(DealKind::Invoice, _, _) => "invoice",
		};
		run.cov.case(
			&format!("{}|{}", flow, mutated.clone().unwrap_or_else(|| "honest".into())),
			true,
		);
		if mutated.is_some() {
			run.cov.probe("finalize_succeeded_on_mutated_reply");
		}
		let tx = match slate.tx.clone() {
			Some(t) => t,
			None => {
				v.push(run.viol("valid_tx", "no_tx_returned", format!("wallet {}: finalize returned no transaction", w)));
				return v;
			}
		};
		// consensus validity
		if let Err(e) = tx.validate(Weighting::AsTransaction) {
			v.push(run.viol("valid_tx", "invalid_tx", format!("wallet {}: finalized transaction invalid: {}", w, e)));
			return v;
		}
		let min_fee = tx_fee(tx.inputs().len(), tx.outputs().len(), tx.kernels().len());
		if tx.fee() < min_fee {
			v.push(run.viol("valid_tx", "fee_below_minimum", format!("wallet {}: fee {} < minimum {}", w, tx.fee(), min_fee)));
			return v;
		}
		if flow == "self_invoice" {
			// contexts are merged by design; exactness is not judged (see C04 known finding)
			run.cov.not_judged("self_paid_invoice_exactness");
			return v;
		}
		// the payer's records: reserved inputs and recorded change
		let payer = match deal.payer {
			Some(p) => p,
			None => return v,
		};
		if !run.ex.world.is_open(payer) {
			return v;
		}
		let psnap = run.ex.world.snap(payer);
		let sent = psnap
			.txs
			.iter()
			.find(|t| t.tx_slate_id == Some(deal.id) && t.tx_type == TxLogEntryType::TxSent);
		let sent = match sent {
			Some(s) => s.clone(),
			None => {
				if deal.kind == DealKind::Invoice && !deal.locked {
					run.cov.not_judged("invoice_payer_never_reserved");
					return v;
				}
				v.push(run.viol(
					"exact",
					"no_sent_entry",
					format!("wallet {}: transaction finalized but payer {} has no sent entry", w, payer),
				));
				return v;
			}
		};
		let linked: Vec<_> = psnap
			.outputs
			.iter()
			.filter(|o| o.tx_log_entry == Some(sent.id) && o.root_key_id == sent.parent_key_id)
			.collect();
		let kc = &run.ex.world.wallets[payer].kc;
		let commit = |val: u64, kid: &grin_keychain::Identifier| -> Commitment {
			kc.commit(val, kid, SwitchCommitmentType::Regular).unwrap()
		};
		let reserved: Vec<Commitment> = linked
			.iter()
			.filter(|o| o.status == OutputStatus::Locked || o.status == OutputStatus::Spent)
			.map(|o| commit(o.value, &o.key_id))
			.collect();
		let change: Vec<(Commitment, u64)> = linked
			.iter()
			.filter(|o| o.status == OutputStatus::Unconfirmed || o.status == OutputStatus::Unspent)
			.map(|o| (commit(o.value, &o.key_id), o.value))
			.collect();
		let tx_in = Self::hexset(&crate::chain::commits_in(&tx));
		let res_in = Self::hexset(&reserved);
		if tx_in != res_in {
			v.push(run.viol(
				"exact",
				"inputs_not_the_reserved_ones",
				format!(
					"wallet {}: transaction spends {:?}, payer {} reserved {:?}",
					w, tx_in, payer, res_in
				),
			));
			return v;
		}
		let in_sum: u128 = linked
			.iter()
			.filter(|o| o.status == OutputStatus::Locked || o.status == OutputStatus::Spent)
			.map(|o| o.value as u128)
			.sum();
		// recorded change: the private context read at reservation time when the
		// DealBook has it (records can be re-tagged by a later transaction that spends
		// unconfirmed change - a known defect judged under C04/C05), else the records
		let change: Vec<(Commitment, u64)> = if !deal.change.is_empty() && !deal.late_lock {
			deal.change
				.iter()
				.filter_map(|(k, v)| grin_keychain::Identifier::from_hex(k).ok().map(|id| (commit(*v, &id), *v)))
				.collect()
		} else {
			change
		};
		let change_sum: u128 = change.iter().map(|c| c.1 as u128).sum();
		let fee = tx.fee() as u128;
		// fee agreed at initiation
		if let Some(f) = deal.fee {
			if f as u128 != fee {
				v.push(run.viol("exact", "fee_not_as_agreed", format!("wallet {}: kernel fee {} agreed {}", w, fee, f)));
				return v;
			}
		}
		if in_sum < change_sum + fee || in_sum - change_sum - fee != deal.amount as u128 {
			v.push(run.viol(
				"exact",
				"amount_not_as_agreed",
				format!(
					"wallet {}: inputs {} - change {} - fee {} != agreed amount {}",
					w, in_sum, change_sum, fee, deal.amount
				),
			));
			return v;
		}
		let tx_out: BTreeSet<String> = tx.outputs().iter().map(|o| o.commitment().as_ref().to_hex()).collect();
		for (c, val) in &change {
			if !tx_out.contains(&c.as_ref().to_hex()) {
				v.push(run.viol(
					"exact",
					"recorded_change_missing",
					format!("wallet {}: recorded change output of {} is not in the transaction", w, val),
				));
				return v;
			}
		}
		// the honest recipient's recorded output (the slate may have been received into
		// several accounts of the recipient: the reply that was finalized came from one)
		if let Some(pe) = deal.payee {
			if run.ex.world.is_open(pe) {
				let rsnap = run.ex.world.snap(pe);
				let rkc = &run.ex.world.wallets[pe].kc;
				let entries: Vec<_> = rsnap
					.txs
					.iter()
					.filter(|t| t.tx_slate_id == Some(deal.id) && t.tx_type == TxLogEntryType::TxReceived)
					.collect();
				let mut judged = 0;
				let mut good = false;
				let mut last_detail = String::new();
				for re in &entries {
					let outs: Vec<_> = rsnap
						.outputs
						.iter()
						.filter(|o| o.tx_log_entry == Some(re.id) && o.root_key_id == re.parent_key_id)
						.collect();
					if outs.len() != 1 {
						continue;
					}
					judged += 1;
					let rc = rkc
						.commit(outs[0].value, &outs[0].key_id, SwitchCommitmentType::Regular)
						.unwrap();
					let in_tx = tx_out.contains(&rc.as_ref().to_hex());
					if outs[0].value == deal.amount && in_tx {
						good = true;
					} else {
						last_detail = format!(
							"wallet {}: recipient recorded {} (agreed {}), in tx: {}",
							w, outs[0].value, deal.amount, in_tx
						);
					}
				}
				if judged == 0 && !entries.is_empty() {
					run.cov.not_judged("recipient_record_not_unique");
				}
				if judged > 0 && !good {
					v.push(run.viol("exact", "recipient_output_wrong", last_detail));
					return v;
				}
				if good && tx_out.len() != change.len() + 1 {
					v.push(run.viol(
						"exact",
						"extra_outputs",
						format!("wallet {}: transaction has {} outputs, expected change {} + 1", w, tx_out.len(), change.len()),
					));
					return v;
				}
			}
		}
		// byte-for-byte what the wallet stores for re-posting
		let owner = run.ex.world.owner(w);
		let mask = run.ex.world.mask(w);
		match owner.get_stored_tx(mask.as_ref(), None, Some(&deal.id)) {
			Ok(Some(st)) => {
				let a = ser::ser_vec(&tx, ser::ProtocolVersion(1)).unwrap_or_default();
				let b = st
					.tx
					.as_ref()
					.map(|t| ser::ser_vec(t, ser::ProtocolVersion(1)).unwrap_or_default())
					.unwrap_or_default();
				if a != b {
					v.push(run.viol(
						"stored_equals_returned",
						"stored_tx_differs",
						format!("wallet {}: stored transaction differs from the one finalize returned", w),
					));
					return v;
				}
			}
			other => {
				v.push(run.viol(
					"stored_equals_returned",
					"stored_tx_missing",
					format!("wallet {}: get_stored_tx after finalize: {:?}", w, other.map(|o| o.is_some())),
				));
				return v;
			}
		}
		// would a node take it now? (probe only: other generated activity may have spent inputs)
		if run.ex.world.chain.chain.validate_tx(&tx).is_ok() {
			run.cov.probe("finalized_tx_acceptable_to_node");
		}
		v
	}
}

impl Prop for C02 {
	fn id(&self) -> &'static str {
		"C02"
	}

	fn next(&mut self, run: &mut Run) -> Option<Step> {
		// finalize the mutated copy that was just produced
		if let Some((d, m)) = self.pending_mut.take() {
			if m < run.ex.msgs.len() {
				let deal = &run.model.deals[d];
				let w = match deal.kind {
					DealKind::Send => deal.initiator,
					DealKind::Invoice => deal.initiator,
				};
				return Some(Step::new(Op::Finalize {
					w,
					m,
					foreign: run.rng.chance(1, 3),
				}));
			}
		}
		// after a refused reply: cancel, or deliver the genuine reply, or another altered one
		if let Some(d) = self.failed_final.pop() {
			let deal = run.model.deals[d].clone();
			let pick = if deal.late_lock && run.rng.chance(1, 2) { 2 } else { run.rng.below(6) };
			match pick {
				0 | 1 => {
					if let Some(p) = deal.payer {
						return Some(Step::new(Op::Cancel {
							w: p,
							m: Some(deal.m1),
							id: None,
						}));
					}
				}
				2 | 3 => {
					if let Some(m2) = deal.m2 {
						run.cov.probe("genuine_reply_after_refused_one");
						return Some(Step::new(Op::Finalize {
							w: deal.initiator,
							m: m2,
							foreign: run.rng.chance(1, 3),
						}));
					}
				}
				4 => {
					if let Some(m2) = deal.m2 {
						let kind = (*run.rng.pick(SLATE_MUTATIONS)).to_owned();
						self.pending_mut = Some((d, run.ex.msgs.len()));
						return Some(Step::new(Op::Mutate {
							m: m2,
							kind,
							arg: run.rng.next_u64() >> 8,
						}));
					}
				}
				_ => {}
			}
		}
		let st = self.gen.next(run)?;
		// intercept: a finalize of an honest reply becomes mutate + finalize
		if let Op::Finalize { m, .. } = &st.op {
			if self.p_mutate > 0 && run.rng.chance(self.p_mutate, 100) && *m < run.ex.msgs.len() {
				if let Some(d) = run.model.deal_of_msg(run, *m) {
					if run.ex.msgs[*m].mutated.is_none() && !run.model.deals[d].finalized {
						let kind = (*run.rng.pick(SLATE_MUTATIONS)).to_owned();
						self.pending_mut = Some((d, run.ex.msgs.len()));
						return Some(Step::new(Op::Mutate {
							m: *m,
							kind,
							arg: run.rng.next_u64() >> 8,
						}));
					}
				}
			}
		}
		Some(st)
	}

	fn after(&mut self, run: &mut Run, step: &Step, out: &StepOut) -> Vec<Violation> {
		let mut v = vec![];
		self.gen.feedback(run, step, out);
		if let Op::Mutate { .. } = &step.op {
			if out.new_msg.is_none() {
				self.pending_mut = None;
			}
		}
		match &step.op {
			Op::Finalize { w, m, .. } => {
				if *m >= run.ex.msgs.len() {
					return v;
				}
				let mutated = run.ex.msgs[*m].mutated.clone();
				let d = run.model.deal_of_msg(run, *m);
				if out.ok {
					if let (Some(d), Some(nm)) = (d, out.new_msg) {
						v.extend(self.judge_final(run, *w, d, nm, mutated));
					}
				} else if out.err.is_some() {
					if let Some(d) = d {
						let deal = run.model.deals[d].clone();
						let n = self.requeued.get(&d).cloned().unwrap_or(0);
						if mutated.is_some() {
							run.cov.case(&format!("refused|{}", mutated.clone().unwrap()), true);
						}
						if (mutated.is_some() || n > 0) && n < 3 && !deal.finalized && deal.cancelled_by.is_empty() {
							self.failed_final.push(d);
							self.requeued.insert(d, n + 1);
						}
						// a refused reply must not leave a second pending entry for the same
						// slate: cancel_tx by slate id then finds no unique transaction
						if let Some(p) = deal.payer {
							if !out.crashed && run.ex.world.is_open(p) {
								let snap = run.ex.world.snap(p);
								let n_sent = snap
									.txs
									.iter()
									.filter(|t| t.tx_slate_id == Some(deal.id) && t.tx_type == TxLogEntryType::TxSent)
									.count();
								if n_sent > 1 {
									v.push(run.viol(
										"cancellable_after_refusal",
										"duplicate_pending_entries_after_refusal",
										format!(
											"wallet {}: after {} refused finalize attempts slate {} has {} pending sent entries",
											p,
											n + 1,
											deal.id,
											n_sent
										),
									));
									return v;
								}
							}
						}
					}
				}
			}
			Op::Cancel { w, m: Some(m), .. } => {
				// after a failed finalize the pending transaction can still be cancelled
				if let Some(d) = run.model.deal_of_msg(run, *m) {
					let deal = run.model.deals[d].clone();
					let had_failed_final = run.trace.iter().zip(run.outs.iter()).any(|(s, o)| {
						matches!(&s.op, Op::Finalize { m: fm, .. } if run.model.deal_of_msg(run, *fm) == Some(d))
							&& o.err.is_some()
					});
					if had_failed_final && !deal.finalized {
						run.cov.case("cancel_after_failed_finalize", true);
						if !out.ok && !run.ex.world.chain.is_down() && step.node_fail.is_none() {
							// refusal is legitimate only if there is nothing (unique) to cancel
							let snap = run.ex.world.snap(*w);
							let acct = snap.acct_path(&snap.active);
							let n = snap
								.txs
								.iter()
								.filter(|t| {
									t.tx_slate_id == Some(deal.id)
										&& Some(&t.parent_key_id) == acct.as_ref()
								})
								.count();
							let live = snap.txs.iter().any(|t| {
								t.tx_slate_id == Some(deal.id)
									&& Some(&t.parent_key_id) == acct.as_ref()
									&& crate::world::is_live(t)
							});
							let n_sent_live = snap
								.txs
								.iter()
								.filter(|t| {
									t.tx_slate_id == Some(deal.id)
										&& t.tx_type == TxLogEntryType::TxSent
										&& crate::world::is_live(t)
								})
								.count();
							if (n == 1 && live) || n_sent_live > 1 {
								v.push(run.viol(
									"cancellable_after_refusal",
									"cannot_cancel_after_failed_finalize",
									format!(
										"wallet {}: finalize of {} failed, and cancel_tx now fails: {:?}",
										w, deal.id, out.err
									),
								));
							}
						}
						if out.ok {
							// inputs released
							let snap = run.ex.world.snap(*w);
							let e = snap.txs.iter().find(|t| t.tx_slate_id == Some(deal.id));
							if let Some(e) = e {
								if snap.outputs.iter().any(|o| {
									o.tx_log_entry == Some(e.id)
										&& o.root_key_id == e.parent_key_id
										&& o.status == OutputStatus::Locked
								}) {
									v.push(run.viol(
										"cancellable_after_refusal",
										"inputs_not_released",
										format!("wallet {}: cancel after failed finalize left inputs locked", w),
									));
								}
							}
						}
					}
				}
			}
			_ => {}
		}
		if run.trace.len() == 16 {
			let s = sample_trace(run, 16);
			run.cov.sample(s);
		}
		v
	}
}
